#!/venv/bin/python
"""tools/debug.py CNN N [flag,flag] : run N cases in-process with random.Random seeds; print per-bucket smallest failure."""
import sys, os, json, random, collections
sys.path.insert(0, os.path.dirname(os.path.dirname(os.path.abspath(__file__))))
from vf.runner import load_module, case_size
pid = sys.argv[1]; N = int(sys.argv[2]); flags = sys.argv[3].split(",") if len(sys.argv) > 3 and sys.argv[3] else []
mod = load_module(pid)
flags = sorted(set(flags) | set(getattr(mod, "FOREIGN_EXCLUSIONS", ())))
cnt = collections.Counter(); ex = {}; nt = 0; labels = collections.Counter(); pre = 0
for seed in range(N):
    case = mod.build(random.Random(seed), os.environ.get("TIER", "quick"), flags)
    if isinstance(case, tuple): case = case[0]
    res = mod.evaluate(case)
    nt += bool(res.nontrivial); pre += bool(res.precondition_failed)
    for l in res.labels: labels[l] += 1
    if not res.ok:
        cnt[res.bucket] += 1
        if res.bucket not in ex or case_size(case) < case_size(ex[res.bucket][0]):
            ex[res.bucket] = (case, res.detail, seed)
print("cases", N, "nontrivial", nt, "precond", pre, "failing", sum(cnt.values()), "buckets", len(cnt))
print(dict(labels))
for b, n in cnt.most_common():
    case, detail, seed = ex[b]
    print("=" * 20, n, b, "seed", seed)
    for k, v in detail.items():
        s = v if isinstance(v, str) else json.dumps(v)
        print("  %s: %s" % (k, s[:int(os.environ.get('W', '600'))]))
    if os.environ.get("SRC"):
        print(case.get("src", "")[:3000])
