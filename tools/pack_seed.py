#!/venv/bin/python
"""tools/pack_seed.py NN name "caught-by text" ["strengthened text"] : store a verified seeded change under seeded/."""
import sys, os, json, shutil, subprocess, re
nn, name, caught = sys.argv[1], sys.argv[2], sys.argv[3]
strengthened = sys.argv[4] if len(sys.argv) > 4 else ""
root = os.path.dirname(os.path.dirname(os.path.abspath(__file__)))
d = os.path.join(root, "seeded", "C%s-%s" % (nn, name))
os.makedirs(d, exist_ok=True)
shutil.copy("/tmp/seed/C%s.patch.diff" % nn, os.path.join(d, "patch.diff"))
shutil.copy("/tmp/seed/C%s.demo.py" % nn, os.path.join(d, "demo.py"))
meta = json.load(open("/tmp/seed/C%s.meta.json" % nn))
def tail(path, n=1):
    try:
        return open(path).read().strip().split("\n")[-n:]
    except OSError:
        return []
ver = {"verified_here": True,
       "base_commit_of_repo": subprocess.check_output(["git", "-C", "/repo", "log", "--format=%h", "-1"]).decode().strip(),
       "how": "tools/verify_seed.sh %s: demo run with PYTHONPATH=<worktree with patch>/src (must fail) and /repo/src (must pass); "
              "full pytest suite in the patched worktree; checks run with FPARSER_SRC=<patched worktree>/src" % nn,
       "demo_with_change_tail": tail("/tmp/seed/C%s.demo.with.log" % nn, 2),
       "checks": {}}
for f in sorted(os.listdir("/tmp/seed")):
    m = re.match(r"C%s\.check\.(C\d+)\.log" % nn, f)
    if m:
        lines = open(os.path.join("/tmp/seed", f)).read().strip().split("\n")
        ver["checks"][m.group(1)] = {"summary": lines[-1], "violation_buckets": [l.strip() for l in lines if l.strip().startswith("bucket:")][:6]}
meta["verification"] = ver
meta["caught_by"] = caught
if strengthened:
    meta["strengthened"] = strengthened
json.dump(meta, open(os.path.join(d, "meta.json"), "w"), indent=1)
print("packed", d)
