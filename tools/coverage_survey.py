#!/venv/bin/python
"""tools/coverage_survey.py N : which fparser2 node classes does generator G never produce in N programs?
Concrete classes (own match() or a *Base parent) that are never seen point at dead or missing productions."""
import os; import sys as _s; _s.path.insert(0, os.path.dirname(os.path.dirname(os.path.abspath(__file__))))
import random, sys, collections
from vf import env, progs, gen
from vf.treeform import class_names
import fparser.two.Fortran2003 as F03, fparser.two.Fortran2008 as F08, inspect
from fparser.two.utils import Base
allc = {n for n, c in inspect.getmembers(F03, inspect.isclass) if issubclass(c, Base) and c.__module__.startswith("fparser.two.Fortran")}
allc |= {n for n, c in inspect.getmembers(F08, inspect.isclass) if issubclass(c, Base)}
seen = collections.Counter()
N = int(sys.argv[1])
bad = 0
for i in range(N):
    rnd = random.Random(i)
    units, flat, g = progs.make_program(rnd, ["no_defined_binop_before_dotted"], f08=(i % 2 == 0))
    src = gen.canonical_source(flat)
    o = env.guarded_parse(src, std="f2008", hang_limit=30)
    if o.kind != "tree":
        bad += 1; continue
    for c in class_names(o.tree): seen[c] += 1
print("programs", N, "rejected", bad, "classes seen", len(seen), "of", len(allc))
never = sorted(c for c in allc if c not in seen and not c.endswith("_List") and not c.endswith("_Name"))
print(len(never)); print(" ".join(never))
conc = []
for n in never:
    c = getattr(F08, n, None) or getattr(F03, n, None)
    if c is None: continue
    if 'match' in c.__dict__ or any(b.__name__.endswith('Base') and b is not Base for b in c.__mro__[1:]):
        conc.append(n)
print("CONCRETE never:", " ".join(conc))
low = sorted((v, k) for k, v in seen.items() if v <= 3)
print("RARE:", low)
