#!/bin/sh
# tools/sensitivity.sh [dir-glob] : apply every seeded change to a scratch worktree of /repo HEAD and run the owning
# check's quick tier against it (FPARSER_SRC).  Expect exit 1 for every change.  Scratch worktrees live under /tmp
# and are removed again.
cd "$(dirname "$0")/.." || exit 2
ok=0; miss=0
for d in seeded/${1:-C*}; do
  [ -f "$d/patch.diff" ] || continue
  p=$(basename "$d" | cut -c1-3)
  # a few changes are outside what the owning check observes and are reported by another check (meta.json: check_with)
  cw=$(/venv/bin/python -c "import json,sys; print(json.load(open(sys.argv[1])).get('check_with',''))" "$d/meta.json" 2>/dev/null)
  [ -n "$cw" ] && p=$cw
  WT=/tmp/sens_$$
  git -C /repo worktree remove --force $WT 2>/dev/null
  git -C /repo worktree add -q --detach $WT HEAD || exit 2
  if ! git -C $WT apply "$PWD/$d/patch.diff" 2>/dev/null; then echo "SKIP  $d (patch does not apply to HEAD)"; git -C /repo worktree remove --force $WT; continue; fi
  FPARSER_SRC=$WT/src ./check $p --tier quick > /tmp/sens_$$.log 2>&1; rc=$?
  git -C /repo worktree remove --force $WT
  if [ $rc -eq 1 ]; then ok=$((ok+1)); echo "CAUGHT $d  ($(grep -c '^VIOLATION' /tmp/sens_$$.log) violation lines)"; else miss=$((miss+1)); echo "MISSED $d rc=$rc"; fi
done
rm -f /tmp/sens_$$.log
echo "caught=$ok missed=$miss"
[ $miss -eq 0 ]
