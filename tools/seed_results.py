#!/venv/bin/python
"""Regenerate seeded/RESULTS.md from seeded/*/meta.json."""
import json, glob, os
root = os.path.dirname(os.path.dirname(os.path.abspath(__file__)))
rows = []
for d in sorted(glob.glob(os.path.join(root, "seeded", "C*"))):
    m = json.load(open(os.path.join(d, "meta.json")))
    rows.append((os.path.basename(d), m))
out = ["# Seeded breaking changes", "",
       "Each directory holds `patch.diff` (apply with `git -C /repo apply`, undo with `git -C /repo checkout -- .`), the",
       "independent demonstration `demo.py` (exit 0 without the change, non-zero with it) and `meta.json` (what the change",
       "needs in order to manifest, what was run to verify it, which checks report it).  All changes keep the unedited",
       "test suite green (2939 passed).  'missed at first' means the quick tier of the owning check did not report the",
       "change before the strengthening described in the last column; every change is reported now.", "",
       "| change | property | what it needs | reported by | strengthening that was needed |", "|---|---|---|---|---|"]
missed = 0
for name, m in rows:
    st = m.get("strengthened", "")
    if st:
        missed += 1
    needs = str(m.get("needs", "")).replace("\n", " ").replace("|", "/")
    if len(needs) > 260:
        needs = needs[:257] + "..."
    out.append("| %s | %s | %s | %s | %s |" % (name, m.get("property"), needs, str(m.get("caught_by", "")).replace("|", "/"),
                                            (st or "-").replace("|", "/")))
out += ["", "%d changes; %d reported by the quick tier as first built, %d only after strengthening the check." % (
    len(rows), len(rows) - missed, missed), ""]
open(os.path.join(root, "seeded", "RESULTS.md"), "w").write("\n".join(out))
print(len(rows), "changes,", missed, "needed strengthening")
