# Source of MANIFEST.json (tools/gen_manifest.py).  id: (technique, level text, level note, design ref)
TRUST = ("Trusted: generator G emits only standard-conforming programs (C01 owns that); the canonical tree form; "
         "Hypothesis' PRNG. Exploration only: absence of violations on the generated cases, not a proof.")
CHECKS = {
 "C02": ("property-based token-level differential (independent lossless lexer vs construction-time token sequence)",
         "Generated programs with source variants and free-form layouts; the regenerated text is lexed by an "
         "independent lexer and compared statement by statement with the token sequence known by construction.",
         TRUST, "DESIGN.md 5 C02"),
 "C03": ("bounded-exhaustive + random differential against a reference precedence grammar (R701-R723)",
         "Every operator tree up to 2 (quick) / 3 (thorough) operators over all intrinsic/defined operators plus random "
         "trees to depth 6, rendered with minimal parentheses; fparser's grouping must equal the reference grouping.",
         TRUST, "DESIGN.md 5 C03"),
 "C04": ("metamorphic property-based testing (layout engine; tree of laid-out source == tree of canonical source)",
         "Generated programs under random free-form layouts plus exhaustive break subsets for small statements; "
         "canonical tree forms must agree up to name case.", TRUST, "DESIGN.md 5 C04"),
 "C05": ("metamorphic property-based testing (fixed-form layout engine vs free-form canonical source; format detection)",
         "Generated programs rendered in fixed form over wrap column, continuation mark, comment style, label "
         "placement and column-72 literal splits; detection must say fixed and the tree must equal the free-form tree.",
         TRUST, "DESIGN.md 5 C05"),
 "C12": ("model-based property testing of the reader (expected item list by construction; get/put walks against a list model)",
         "Reader items (text, label, name, span, comments) compared with the layout engine's ground truth for free and "
         "fixed form, and drawn get/put histories compared with a list model including object identity on re-read.",
         TRUST, "DESIGN.md 5 C12"),
 "C06": ("mutation-based fuzzing of generated programs (character/token/line level, exhaustive 1-3 token edits per statement) + token soup + deep nesting + invalid UTF-8; thorough adds coverage-guided atheris/libFuzzer campaigns; exception-bucketing oracle with a deterministic work budget and a wall-clock hang guard",
         "1-3 mutations of generated valid programs (all layouts), every small token edit of generated statements, random "
         "token soup, deep nests and byte-level corruption, for both standards, comment settings and reader kinds (thorough: "
         "plus 16 libFuzzer campaigns with the oracle in the target); anything other than a tree or FortranSyntaxError is a failure.",
         TRUST + " The time bound is represented by a deterministic count of rule constructions.", "DESIGN.md 5 C06"),
 "C07": ("exhaustive-per-program fault injection (every statement replaced by garbage) with an exact line/text oracle",
         "For generated multi-unit programs in free-form layouts every statement position is replaced by text no rule "
         "matches; the FortranSyntaxError must name the last physical line of that statement and quote it.",
         TRUST, "DESIGN.md 5 C07"),
 "C08": ("exhaustive-per-program structural mutation (whitelisted invalidating edits) with a must-reject oracle",
         "Every applicable opener/END deletion, duplication, surplus END, END-name change and single parenthesis edit "
         "of generated programs must be rejected.", TRUST + " Each edit kind is argued to leave an invalid program.",
         "DESIGN.md 5 C08"),
 "C10": ("property-based invariant checking over generated trees (identity-level structural invariants, walk() vs independent traversal)",
         "For generated trees (and their re-parse) uniqueness of node objects, parent links, get_root, walk() coverage/order "
         "and statement order vs printed text are checked on every node.", TRUST, "DESIGN.md 5 C10"),
 "C18": ("property-based round-trip (deepcopy / pickle) with structural, textual, identity and aliasing oracles",
         "Generated trees including comment, directive, include and cpp nodes are deep-copied and pickled; copies must "
         "print and compare equal, be well formed, share no node and be independent under mutation.", TRUST, "DESIGN.md 5 C18"),
 "C11": ("metamorphic property-based testing over comment placements (ground-truth comment list and slots by construction)",
         "Generated programs with comments placed by the layout engine; kept comments must appear once, unchanged, in order "
         "and in the right slot; ignoring them must give the comment-free tree; directive processing may only retag nodes.",
         TRUST, "DESIGN.md 5 C11"),
 "C14": ("metamorphic property-based testing (insert cpp lines; tree modulo Cpp nodes == original; directive list oracle)",
         "Random cpp directive lines (all kinds, blanks, backslash continuations) inserted at statement boundaries; the "
         "Fortran part of the tree must be unchanged modulo grouping nodes and the directives recovered in order, class, "
         "slot and text.", TRUST, "DESIGN.md 5 C14"),
 "C13": ("metamorphic property-based testing with generated file systems (split into include files; decoys; missing files)",
         "Generated programs are split into nested include files written to disk with decoys in later directories; the tree "
         "must equal the unsplit tree; with files absent the INCLUDE lines must be kept as nodes in place and re-emitted.",
         TRUST, "DESIGN.md 5 C13"),
 "C15": ("metamorphic property-based testing (hide statements behind OpenMP conditional sentinels, free and fixed form)",
         "Random subsets of removable statements hidden behind '!$ ' / 'c$' / '*$' sentinels incl. continuation lines; "
         "enabled parse == original tree (also combined with kept comments and with process_directives, and in explicit "
         "fix / strict-f77 reader modes), disabled parse == tree of the program without them, kept comments == hidden lines.",
         TRUST, "DESIGN.md 5 C15"),
 "C16": ("model-based property testing (scope-tree generator with ground-truth symbol tables and shadowing; reference resolver)",
         "Random nests of program units, contained subprograms and BLOCKs (also inside back-tracked non-block DOs) with "
         "declarations/USE statements shadowing intrinsic names; the forest of symbol tables and the node class of every "
         "reference are compared with the model.", TRUST, "DESIGN.md 5 C16"),
 "C17": ("differential property-based testing (f2003 parser vs f2008 parser on generated programs; catalogue of 2008-only constructs)",
         "Generated F2003 programs must regenerate identically under both parsers (case-insensitively when F2008 intrinsics "
         "are referenced); generated programs with a 2008-only production must be rejected by the 2003 parser and accepted "
         "by the 2008 parser; each catalogue member is also checked in isolation.", TRUST, "DESIGN.md 5 C17"),
 "C09": ("bounded-exhaustive + random history testing in forked pristine processes (differential against a fresh process; state invariants after failures)",
         "All histories of creates and parses of 11 state-touching sources up to length 3 (quick) / 4 (thorough) plus random "
         "longer ones with generated and mutated programs run in children forked from a process that never created a parser; "
         "results must equal those of a fresh process and failing parses must leave scope and tables untouched.",
         TRUST, "DESIGN.md 5 C09"),
 "C19": ("property-based round-trip of the legacy parser (generated F77/F90 programs; print/parse/print fixpoint, block structure and expression-text oracles)",
         "Generated F77/F90 programs in free and fixed form, analyze on/off: fparser1's regenerated source must re-parse to "
         "the same statements and block structure, the nesting must equal the generator's, expression texts must "
         "survive verbatim and every name, number and literal of a source statement must occur in its regenerated line.", TRUST, "DESIGN.md 5 C19"),
 "C20": ("scaling-relation testing over size-indexed program families with a deterministic work counter (catalogue + generated nest recipes)",
         "For the catalogue families (about 70) and drawn nest / expression-wrapper / sibling / implied-DO recipes the number of rule constructions at size 2n must stay below "
         "4x that at size n plus a constant; parses are capped at 5e6 constructions.",
         TRUST + " The counter wraps Base.__new__ from the harness.", "DESIGN.md 5 C20"),
 "C01": ("property-based round-trip (Hypothesis-driven program generator; parse/print/parse fixpoint oracle)",
         "Random programs from a structured Fortran generator are parsed, printed, re-parsed and re-printed; "
         "trees and texts must agree. Exploration is the right level: the domain is an infinite grammar.",
         TRUST, "DESIGN.md 5 C01"),
}
NOT_APPLICABLE = {}
