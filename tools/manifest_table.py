# Source of MANIFEST.json (tools/gen_manifest.py).  id: (technique, level text, level note, design ref)
TRUST = ("Trusted: generator G emits only standard-conforming programs (C01 owns that); the canonical tree form; "
         "Hypothesis' PRNG. Exploration only: absence of violations on the generated cases, not a proof.")
CHECKS = {
 "C01": ("property-based round-trip (Hypothesis-driven program generator; parse/print/parse fixpoint oracle)",
         "Random programs from a structured Fortran generator are parsed, printed, re-parsed and re-printed; "
         "trees and texts must agree. Exploration is the right level: the domain is an infinite grammar.",
         TRUST, "DESIGN.md 5 C01"),
}
NOT_APPLICABLE = {
 pid: "check not built yet (work in progress; see DESIGN.md 5)" for pid in
 ["C02", "C03", "C04", "C05", "C06", "C07", "C08", "C09", "C10", "C11", "C12", "C13", "C14", "C15", "C16", "C17",
  "C18", "C19", "C20"]
}
