#!/bin/sh
# tools/thorough_all.sh [SEED] : run every thorough command once on the unchanged tree; one summary line per check
cd "$(dirname "$0")/.." || exit 2
./setup.sh >/dev/null 2>&1
bad=0
for p in C01 C02 C03 C04 C05 C06 C07 C08 C09 C10 C11 C12 C13 C14 C15 C16 C17 C18 C19 C20; do
  out=$(VERIF_SEED=${1:-1} ./check $p --tier thorough 2>&1); rc=$?
  echo "rc=$rc $(echo "$out" | grep -c '^VIOLATION') violations | $(echo "$out" | tail -1)"
  echo "$out" | grep -A1 '^VIOLATION\|HARNESS' | head -8
  [ $rc -eq 0 ] || bad=1
done
exit $bad
