#!/bin/sh
# seeded changes of rounds 6-8 first (new since the last full sensitivity run), then the rest
cd "$(dirname "$0")/.." || exit 2
rc=0
for g in "C*-r8-*" "C*-r7-*" "C*-r6-*"; do tools/sensitivity.sh "$g" || rc=1; done
exit $rc
