#!/venv/bin/python
"""Self-tests of the machinery (no fparser involved):
 1. the table-driven reference grammar (vf/exprs.py: BIN/UN levels, minimal()) agrees with a second, table-free
    recursive-descent implementation of R701-R723 on every operator tree with <= 3 operator nodes;
 2. the free-form layout engine is inverted by a 30-line de-layouter written from the standard's continuation
    rules: de-layout(layout(P)) has the token sequence of P (1000 random programs);
 3. the fixed-form layout engine likewise (columns 1-5 label, column 6 continuation, text from column 7).
"""
import sys, os, random, itertools
sys.path.insert(0, os.path.dirname(os.path.dirname(os.path.abspath(__file__))))
from vf import exprs as X, gen, layout, lexer
from vf.props import c03

def t1():
    n = 0
    for k in range(1, 4):
        pool_b = c03.BIN_OPS if k <= 2 else c03.BIN_REPS
        for shape in c03.shapes(k):
            nb, nu = c03.count_slots(shape)
            for bops in itertools.product(pool_b, repeat=nb):
                for uops in itertools.product(c03.UN_OPS, repeat=nu):
                    atoms = ("a%d" % i for i in itertools.count())
                    tree = c03.fill(shape, iter(bops), iter(uops), atoms)
                    m = X.minimal(tree)
                    back = X.reparse_reference(X.to_tokens(m))
                    assert X.fullparen(back) == X.fullparen(m), (X.render(m), X.fullparen(back), X.fullparen(m))
                    n += 1
    return n

def delayout_free(text):
    """Join free-form continuation lines (F2003 3.3.1.3); drop comments and blank lines; split at ';'."""
    out, cur, inq = [], None, None
    for line in text.split("\n"):
        s = line
        if cur is None:
            if not s.strip() or s.lstrip().startswith("!"):
                continue
            cur = ""
        else:
            if inq is None and (not s.strip() or s.lstrip().startswith("!")):
                continue
            if inq is not None and (not s.strip() or s.lstrip().startswith("!")) and not s.lstrip().startswith("&"):
                continue
            ls = s.lstrip()
            if ls.startswith("&"):
                s = ls[1:]
        # scan for comment / trailing & outside character context
        i, res = 0, ""
        while i < len(s):
            c = s[i]
            if inq:
                res += c
                if c == inq:
                    if i + 1 < len(s) and s[i + 1] == inq:
                        res += inq; i += 1
                    else:
                        inq = None
            elif c in "'\"":
                inq = c; res += c
            elif c == "!":
                break
            else:
                res += c
            i += 1
        r = res.rstrip()
        if r.endswith("&"):
            cur += r[:-1]
        else:
            cur += res
            out.append(cur); cur = None
    stmts = []
    for l in out:
        # split at ';' outside strings
        part, q = "", None
        for c in l:
            if q:
                part += c
                if c == q: q = None
            elif c in "'\"":
                q = c; part += c
            elif c == ";":
                stmts.append(part); part = ""
            else:
                part += c
        stmts.append(part)
    return [s for s in stmts if s.strip()]

def delayout_fixed(text):
    out = []
    for line in text.split("\n"):
        if not line.strip() or line[0] in "cC*!":
            continue
        line = line[:72] if False else line
        if len(line) > 5 and line[5] not in " 0" and not line[:5].strip():
            out[-1] += line[6:]
        else:
            out.append(line[:5].strip() + " " + line[6:])
    stmts = []
    for l in out:
        part, q = "", None          # split at ';' outside character context
        for c in l:
            if q:
                part += c
                if c == q:
                    q = None
            elif c in "'\"":
                q = c
                part += c
            elif c == ";":
                stmts.append(part)
                part = ""
            else:
                part += c
        stmts.append(part)
    return [s for s in stmts if s.strip()]

def toks(s):
    return [t for _, t in lexer.lex_line(s)]

def t23(n=600):
    k = 0
    for seed in range(n):
        rnd = random.Random(seed)
        g = gen.Gen(rnd, gen.Opts(f08=seed % 2 == 0, max_units=2))
        flat = gen.finalize(g.program())
        want = [toks(gen.stmt_text(st).replace(": ", ":", 1) if False else gen.stmt_text(st)) for st, _ in flat]
        lo = layout.FreeOpts(cont=15, lit_break=30, comments=20, trailing=15, blank_lines=10, cont_comments=30, semis=15,
                             indent=True, blanks=True, trail_blanks=20, names=gen.ALL_NAMES)
        lay = layout.free_layout(flat, rnd, lo)
        got = [toks(s) for s in delayout_free(lay.text)]
        assert [x for x in got] == [x for x in want], (seed, "free", next((a, b) for a, b in zip(got, want) if a != b))
        fo = layout.FixedOpts(wrap=rnd.choice([72, 50, 30]), comments=20, cont_comments=30, blank_lines=10, extra_indent=True,
                              lit_cross=80, lit_pad=40, trail_blanks=0, semis=15, names=gen.ALL_NAMES, excl={"no_blank_at_col72"})
        lay = layout.fixed_layout(flat, rnd, fo)
        got = [toks(s) for s in delayout_fixed(lay.text)]
        assert got == want, (seed, "fixed", next((a, b) for a, b in zip(got, want) if a != b))
        k += 1
    return k

if __name__ == "__main__":
    print("reference grammar vs table-free parser: %d trees agree" % t1())
    print("layout engines inverted by the reference de-layouters on %d programs" % t23())
