#!/venv/bin/python
"""Regenerate MANIFEST.json from the table below (keeps it valid at all times)."""
import json, os
ROOT = os.path.dirname(os.path.dirname(os.path.abspath(__file__)))
BASE = "cd /repo && /venv/bin/python -m pytest -ra -q -p no:cacheprovider --timeout=900 --continue-on-collection-errors"

CHECKS = {
 # id: (technique, level text, level note, design ref)
}
NOT_APPLICABLE = {}

def load_tables():
    ns = {}
    with open(os.path.join(ROOT, "tools", "manifest_table.py")) as fh:
        exec(fh.read(), ns)
    return ns["CHECKS"], ns["NOT_APPLICABLE"]

def main():
    checks, na = load_tables()
    out = {
        "version": 1,
        "setup_cmd": "./setup.sh",
        "hooks": {
            "guard": "FPARSER_VERIF",
            "enable": "no hooks: the harness wraps fparser.two.utils.Base.__new__ from outside (vf/env.py); nothing in /repo is instrumented",
            "baseline_off_cmd": BASE,
            "source_commits": [],
            "add_only": True,
        },
        "engines": [
            {"name": "hypothesis-driver", "path": "vf/runner.py", "serves_properties": sorted(checks),
             "kind_free_text": "Hypothesis 6.168 (st.randoms-driven structured generator G, 16 forked shards, collect-then-shrink, JSON replays) plus itertools-exhaustive sub-spaces"},
        ],
        "checks": [],
        "not_applicable": [{"property_id": k, "reason": v} for k, v in sorted(na.items())],
        "notes": "All checks run /repo/src from the working tree (sys.path[0]); VERIF_SEED seeds Hypothesis; exit 0 quiet, 1 VIOLATION, 2 harness error. Known findings: known_findings.json.",
    }
    for pid in sorted(checks):
        tech, text, note, ref = checks[pid]
        out["checks"].append({
            "property_id": pid,
            "quick_cmd": "./check %s --tier quick" % pid,
            "thorough_cmd": "./check %s --tier thorough" % pid,
            "evidence_file": "evidence/%s.json" % pid,
            "replay_cmd_template": "./check %s --replay {path}" % pid,
            "engine": "hypothesis-driver",
            "level_claimed": {"category": "exploration", "text": text, "design_ref": ref},
            "level_note": note,
            "technique": tech,
        })
    with open(os.path.join(ROOT, "MANIFEST.json"), "w") as fh:
        json.dump(out, fh, indent=1)
    print("MANIFEST.json: %d checks, %d not_applicable" % (len(out["checks"]), len(out["not_applicable"])))

main()
