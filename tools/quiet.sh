#!/bin/sh
# tools/quiet.sh SEED... : run every quick check at the given seeds; print one line per run
cd "$(dirname "$0")/.." || exit 2
for s in "$@"; do
  for p in C01 C02 C03 C04 C05 C06 C07 C08 C09 C10 C11 C12 C13 C14 C15 C16 C17 C18 C19 C20; do
    out=$(VERIF_SEED=$s ./check $p --tier quick 2>&1); rc=$?
    echo "seed=$s rc=$rc $(echo "$out" | grep -c '^VIOLATION') violations | $(echo "$out" | tail -1)"
    echo "$out" | grep -A1 '^VIOLATION\|HARNESS' | head -8
  done
done
