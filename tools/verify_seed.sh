#!/bin/sh
# tools/verify_seed.sh NN [checks...] : verify the seeded change /tmp/seed/CNN.patch.diff on a fresh worktree of /repo HEAD
NN=$1; shift
WT=/tmp/seed/v$NN
cd /verif || exit 2
git -C /repo worktree remove --force $WT 2>/dev/null
git -C /repo worktree add -q --detach $WT HEAD || exit 2
if ! git -C $WT apply /tmp/seed/C$NN.patch.diff; then echo "PATCH DOES NOT APPLY on current HEAD"; git -C /repo worktree remove --force $WT; exit 3; fi
echo "== base $(git -C $WT log --format=%h -1); diffstat"; git -C $WT diff --stat | tail -2
echo "== demo with change:"; PYTHONPATH=$WT/src /venv/bin/python /tmp/seed/C$NN.demo.py >/tmp/seed/C$NN.demo.with.log 2>&1; echo "exit $?"; tail -2 /tmp/seed/C$NN.demo.with.log
echo "== demo without change:"; PYTHONPATH=/repo/src /venv/bin/python /tmp/seed/C$NN.demo.py >/tmp/seed/C$NN.demo.without.log 2>&1; echo "exit $?"
echo "== suite with change:"; (cd $WT && PYTHONPATH=$WT/src /venv/bin/python -m pytest -q -p no:cacheprovider -n 8 src/fparser 2>&1 | tail -1) | tee /tmp/seed/C$NN.suite.log
for c in ${@:-C$NN}; do
  echo "== check $c against the change:"; FPARSER_SRC=$WT/src ./check $c --tier quick > /tmp/seed/C$NN.check.$c.log 2>&1; echo "exit $?"; grep -A1 "^VIOLATION" /tmp/seed/C$NN.check.$c.log | head -6; tail -1 /tmp/seed/C$NN.check.$c.log
done
git -C /repo worktree remove --force $WT
