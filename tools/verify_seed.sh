#!/bin/sh
# tools/verify_seed.sh NN [checks...] : verify a seeded change living in /tmp/seed/wtNN and run checks against it
NN=$1; shift
WT=/tmp/seed/wt$NN
cd /verif || exit 2
echo "== diffstat"; git -C $WT diff --stat | tail -3
echo "== demo with change:"; PYTHONPATH=$WT/src /venv/bin/python /tmp/seed/C$NN.demo.py >/tmp/seed/C$NN.demo.with.log 2>&1; echo "exit $?"; tail -2 /tmp/seed/C$NN.demo.with.log
echo "== demo without change:"; PYTHONPATH=/repo/src /venv/bin/python /tmp/seed/C$NN.demo.py >/tmp/seed/C$NN.demo.without.log 2>&1; echo "exit $?"
echo "== suite with change:"; (cd $WT && PYTHONPATH=$WT/src /venv/bin/python -m pytest -q -p no:cacheprovider -n 8 src/fparser 2>&1 | tail -1)
for c in ${@:-C$NN}; do
  echo "== check $c against the change:"; FPARSER_SRC=$WT/src ./check $c --tier quick > /tmp/seed/C$NN.check.$c.log 2>&1; echo "exit $?"; grep -A1 "^VIOLATION" /tmp/seed/C$NN.check.$c.log | head -6; tail -1 /tmp/seed/C$NN.check.$c.log
done
