#!/venv/bin/python
"""tools/add_replay.py CNN name '<json case>' : write replays/CNN/name.json and evaluate it."""
import sys, json, os
sys.path.insert(0, os.path.dirname(os.path.dirname(os.path.abspath(__file__))))
pid, name, case = sys.argv[1], sys.argv[2], json.loads(sys.argv[3])
from vf.runner import load_module
mod = load_module(pid)
res = mod.evaluate(case)
d = os.path.join(os.path.dirname(os.path.dirname(os.path.abspath(__file__))), "replays", pid)
os.makedirs(d, exist_ok=True)
with open(os.path.join(d, name + ".json"), "w") as fh:
    json.dump({"property": pid, "bucket": res.bucket, "case": case, "note": sys.argv[4] if len(sys.argv) > 4 else ""}, fh, indent=1)
print(pid, name, "ok" if res.ok else "FAIL", res.bucket)
