"""Tree comparison helpers shared by the metamorphic checks."""
import json
from vf.treeform import canon, diff_bucket, iter_nodes
from vf.env import F03


def _lower_nonliteral(c):
    """Lower-case every leaf string except character-literal text."""
    if isinstance(c, tuple):
        if c and c[0] == "Char_Literal_Constant":
            return c
        return tuple(_lower_nonliteral(x) for x in c)
    if isinstance(c, str):
        return c.lower()
    return c


def tree_diff(t1, t2, names_lower=False, **kw):
    """None if canonical forms agree, else (bucket string, detail)."""
    a = canon(t1, names_lower=names_lower, **kw)
    b = canon(t2, names_lower=names_lower, **kw)
    if a == b:
        return None
    if names_lower and _lower_nonliteral(a) == _lower_nonliteral(b):
        return ("case-only:" + diff_bucket(a, b), {})
    return (diff_bucket(a, b), {})


def name_spellings(tree):
    return [n.string for n in iter_nodes(tree) if isinstance(n, F03.Name)]
