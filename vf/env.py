"""Environment: import fparser from the working tree, parse helpers, work counter.

Everything that calls into fparser goes through this module so that the code
under test is always /repo/src (or FPARSER_SRC for sensitivity experiments on
scratch copies).
"""
import os
import sys
import logging

SRC = os.environ.get("FPARSER_SRC", "/repo/src")
if SRC not in sys.path[:1]:
    sys.path.insert(0, SRC)

logging.disable(logging.CRITICAL)

import fparser  # noqa: E402

assert os.path.realpath(fparser.__file__).startswith(os.path.realpath(SRC)), (
    "fparser imported from %s, expected under %s" % (fparser.__file__, SRC))

from fparser.common.readfortran import FortranStringReader, FortranFileReader  # noqa: E402
from fparser.two.parser import ParserFactory  # noqa: E402
from fparser.two.utils import FortranSyntaxError, NoMatchError, InternalError  # noqa: E402
from fparser.two.utils import InternalSyntaxError, Base, BlockBase, walk  # noqa: E402
from fparser.two.symbol_table import SYMBOL_TABLES  # noqa: E402
from fparser.two import Fortran2003 as F03  # noqa: E402
from fparser.two import utils as two_utils  # noqa: E402

VERIF_DIR = os.path.dirname(os.path.dirname(os.path.abspath(__file__)))


class BudgetExceeded(BaseException):
    """Raised by the work counter (BaseException: no 'except Exception' in
    fparser can swallow it)."""


class HangDetected(BaseException):
    """Raised by the wall-clock guard of guarded_parse (a parse of a small input that runs for a minute
    without constructing rules is not 'a generous time bound')."""


class _Counter:
    count = 0
    limit = None


_orig_new = Base.__new__


def _unwrap(f):
    while hasattr(f, "__wrapped__"):
        f = f.__wrapped__
    return f


def _counting_new(cls, string, parent_cls=None, _deepcopy=False):
    c = _Counter
    c.count += 1
    if c.limit is not None and c.count > c.limit:
        raise BudgetExceeded(c.count)
    return _orig_new(cls, string, parent_cls, _deepcopy)


_installed = False


def install_counter():
    """Wrap Base.__new__ with a counting function (harness-side; no repo hook)."""
    global _installed
    if not _installed:
        Base.__new__ = staticmethod(_counting_new)
        _installed = True


def reset_counter(limit=None):
    _Counter.count = 0
    _Counter.limit = limit


def get_count():
    return _Counter.count


_tmp_n = [0]


def make_reader(src, ignore_comments=True, file_path=None, source_form=None, via_file=False, **kw):
    """source_form: None = auto-detect (default), 'fix' / 'free' = set explicitly after construction.
    via_file: write src to a scratch file under .work/ and read it with FortranFileReader (same options)."""
    if via_file and file_path is None:
        d = os.path.join(VERIF_DIR, ".work", "src_%d" % os.getpid())
        os.makedirs(d, exist_ok=True)
        _tmp_n[0] = (_tmp_n[0] + 1) % 3      # odd: a check that alternates two forms re-uses each path with both
        file_path = os.path.join(d, "case%d.src" % _tmp_n[0])
        with open(file_path, "w", encoding="utf-8", newline="") as fh:
            fh.write(src)
    if file_path is not None:
        reader = FortranFileReader(file_path, ignore_comments=ignore_comments, **kw)
    else:
        reader = FortranStringReader(src, ignore_comments=ignore_comments, **kw)
    if source_form is not None:
        from fparser.common.sourceinfo import FortranFormat
        reader.set_format(FortranFormat(source_form == "free", source_form == "f77"))
    return reader


_last_std = [None]


def parse(src, std="f2003", ignore_comments=True, file_path=None, reuse_parser=False, **kw):
    """create(std) then parse; returns the tree or raises whatever fparser raises.
    reuse_parser=True skips create() when the previous parse of this process used the same standard (the symbol
    tables are cleared instead); used only where thousands of tiny inputs are parsed in a row."""
    if reuse_parser and _last_std[0] == std:
        SYMBOL_TABLES.clear()
        parser = F03.Program
    else:
        parser = ParserFactory().create(std=std)
        _last_std[0] = std
    reader = make_reader(src, ignore_comments=ignore_comments, file_path=file_path, **kw)
    return parser(reader)


class Outcome:
    """Result of a guarded parse: kind in tree|syntax|exit|other|budget."""
    __slots__ = ("kind", "tree", "exc", "text", "where")

    def __init__(self, kind, tree=None, exc=None, text=None, where=None):
        self.kind, self.tree, self.exc, self.text, self.where = kind, tree, exc, text, where


def _innermost_fparser_frame(tb):
    where = None
    chain = []
    while tb is not None:
        fn = tb.tb_frame.f_code.co_filename
        if "fparser" in fn and "/verif/" not in fn:
            name = tb.tb_frame.f_code.co_name
            qual = getattr(tb.tb_frame.f_code, "co_qualname", name)
            chain.append("%s:%s" % (os.path.basename(fn), qual))
        tb = tb.tb_next
    if chain:
        where = chain[-1]
    return where, chain


def guarded_parse(src, std="f2003", ignore_comments=True, want_str=False, budget=None,
                  file_path=None, hang_limit=90, **kw):
    """Parse, classifying the outcome.  Never raises (except harness bugs)."""
    if budget is not None:
        install_counter()
        reset_counter(budget)
    import signal
    import threading
    use_alarm = hang_limit and threading.current_thread() is threading.main_thread()
    if use_alarm:
        def _on_alarm(signum, frame):
            raise HangDetected()
        old_handler = signal.signal(signal.SIGALRM, _on_alarm)
        signal.setitimer(signal.ITIMER_REAL, hang_limit)
    try:
        tree = parse(src, std=std, ignore_comments=ignore_comments, file_path=file_path, **kw)
        text = None
        if want_str and tree is not None:
            text = str(tree)
        return Outcome("tree", tree=tree, text=text)
    except FortranSyntaxError as e:
        return Outcome("syntax", exc=e, text=str(e))
    except BudgetExceeded as e:
        return Outcome("budget", exc=e, text="budget exceeded")
    except HangDetected as e:
        where, _ = _innermost_fparser_frame(e.__traceback__)
        return Outcome("hang", exc=e, text="no result after %ss" % hang_limit, where=where)
    except SystemExit as e:
        where, chain = _innermost_fparser_frame(e.__traceback__)
        # identify the call site of reader.error() (the frame just above it), else the innermost frame
        caller = None
        for i, c in enumerate(chain):
            if c.endswith(".error") and c.startswith("readfortran.py") and i > 0:
                caller = chain[i - 1]
        return Outcome("exit", exc=e, text="SystemExit(%r)" % (e.code,), where=caller or where)
    except RecursionError as e:
        return Outcome("other", exc=e, text="RecursionError", where="RecursionError")
    except Exception as e:  # noqa: BLE001 - classification is the point
        where, _ = _innermost_fparser_frame(e.__traceback__)
        return Outcome("other", exc=e, text="%s: %s" % (type(e).__name__, str(e)[:200]),
                       where=where)
    finally:
        if use_alarm:
            signal.setitimer(signal.ITIMER_REAL, 0)
            signal.signal(signal.SIGALRM, old_handler)
        if budget is not None:
            _Counter.limit = None
