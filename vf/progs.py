"""Shared helpers turning generator output into JSON-serialisable cases."""
from vf import gen, layout


def make_program(rnd, flags=(), f08=None, **kw):
    """Generate a program; returns (units, flat, generator).  f08=None draws it."""
    r = gen.R(rnd)
    if f08 is None:
        f08 = r.chance(40)
    o = gen.Opts(f08=f08, excl=set(flags), **kw)
    g = gen.Gen(rnd, o)
    units = g.program()
    flat = gen.finalize(units, rnd, variants=o.variants)
    return units, flat, g


def meta_of(flat):
    depth = max((d for _, d in flat), default=0)
    kinds = [st.kind for st, _ in flat]
    return {
        "depth": depth,
        "n_stmts": len(flat),
        "labelled_and_named": sum(1 for st, _ in flat if st.label and st.cname),
        "n_units": sum(1 for st, _ in flat if st.block is not None and st.block.unit and st.role == "close"),
        "f08": any(st.f08 for st, _ in flat),
        "kinds": kinds,
    }


def line_kinds(flat):
    return [st.kind for st, _ in flat]


def excluded_counts(g, *lays):
    out = dict(g.excluded)
    for lay in lays:
        for k, v in lay.excluded.items():
            out[k] = out.get(k, 0) + v
    return out


def comment_only_opts(names):
    return layout.FreeOpts(comments=25, trailing=20, blank_lines=10, indent=True, names=names)


def first_word(line):
    """First keyword-ish word of a source line (label and construct name skipped)."""
    import re
    s = line.strip()
    s = re.sub(r"^\d+\s*", "", s)
    s = re.sub(r"^[A-Za-z_]\w*\s*:(?!:)\s*", "", s)
    m = re.match(r"[A-Za-z_]+", s)
    return m.group(0).lower()[:14] if m else s[:3]


def syntax_error_line(text):
    """(line number, quoted line) of a FortranSyntaxError message, or (None, None)."""
    import re
    m = re.match(r"at line (\d+)\n>>>(.*)\n", text or "", re.S)
    if not m:
        return None, None
    return int(m.group(1)), m.group(2).split("\n")[0]
