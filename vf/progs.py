"""Shared helpers turning generator output into JSON-serialisable cases."""
from vf import gen, layout


def make_program(rnd, flags=(), f08=None, **kw):
    """Generate a program; returns (units, flat, generator).  f08=None draws it."""
    r = gen.R(rnd)
    if f08 is None:
        f08 = r.chance(40)
    o = gen.Opts(f08=f08, excl=set(flags), **kw)
    g = gen.Gen(rnd, o)
    units = g.program()
    flat = gen.finalize(units, rnd, variants=o.variants)
    return units, flat, g


def meta_of(flat):
    depth = max((d for _, d in flat), default=0)
    kinds = [st.kind for st, _ in flat]
    return {
        "depth": depth,
        "n_stmts": len(flat),
        "labelled_and_named": sum(1 for st, _ in flat if st.label and st.cname),
        "n_units": sum(1 for st, _ in flat if st.block is not None and st.block.unit and st.role == "close"),
        "f08": any(st.f08 for st, _ in flat),
        "kinds": kinds,
    }


def line_kinds(flat):
    return [st.kind for st, _ in flat]


def excluded_counts(g, *lays):
    out = dict(g.excluded)
    for lay in lays:
        for k, v in lay.excluded.items():
            out[k] = out.get(k, 0) + v
    return out


def comment_only_opts(names):
    return layout.FreeOpts(comments=25, trailing=20, blank_lines=10, indent=True, names=names, directives=25)


def first_word(line):
    """First keyword-ish word of a source line (label and construct name skipped)."""
    import re
    s = line.strip()
    s = re.sub(r"^\d+\s*", "", s)
    s = re.sub(r"^[A-Za-z_]\w*\s*:(?!:)\s*", "", s)
    m = re.match(r"[A-Za-z_]+", s)
    return m.group(0).lower()[:14] if m else s[:3]


def syntax_error_line(text):
    """(line number, quoted line) of a FortranSyntaxError message, or (None, None)."""
    import re
    m = re.match(r"at line (\d+)\n>>>(.*)\n", text or "", re.S)
    if not m:
        return None, None
    return int(m.group(1)), m.group(2).split("\n")[0]


def groups_of(flat, lay, fixed=False):
    """[[first, last, [canonical lines], [kinds]]] per logical line of a layout, in source order."""
    by = {}
    order = []
    for st, _ in flat:
        sp = lay.span[st.uid]
        if sp not in by:
            by[sp] = [sp[0], sp[1], [], []]
            order.append(sp)
        if fixed:
            text = (st.label or "").ljust(5) + " " + ((st.cname + ": ") if st.cname else "") + st.src
        else:
            text = gen.stmt_text(st)
        by[sp][2].append(text)
        by[sp][3].append(st.kind)
    return [by[sp] for sp in order]


def isolate_group(case, fails, key="laid"):
    """Find one logical line whose layout alone reproduces the failure.
    Returns (kinds string, laid-out lines of that group) or (None, None)."""
    groups = case.get("groups")
    if not groups:
        return None, None
    lines = case[key].split("\n")
    for gi, (first, last, canon_lines, kinds) in enumerate(groups):
        out = []
        for gj, (f2, l2, c2, _) in enumerate(groups):
            if gi == gj:
                out.extend(lines[f2 - 1:l2])
            else:
                out.extend(c2)
        text = "\n".join(out) + "\n"
        if fails(text):
            return "+".join(kinds), "\n".join(lines[first - 1:last])
    return "multi", None
