"""Generator G: random Fortran programs with ground truth known by construction.

All random choices come from a `random.Random`-like object, which the checks
obtain from Hypothesis (`st.randoms(use_true_random=False)`), so cases shrink
and replay.  Choices are arranged so that "smaller draws = simpler program".

IR
  Stmt   label, cname, tmpl (statement text template), kind, role, flags
  Block  kind, opener Stmt, closer Stmt, segs = [(mid Stmt|None, [items])]
  items  Stmt | Block
Templates use markers resolved by `resolve()`:
  {~}   blank in canonical output, optional in source (fused keywords)
  {+X}  X printed by fparser, optional in the source (e.g. '::', 'kind = ')
  {-X}  X accepted in the source but not printed (empty dummy-arg list)
  {,}   comma printed by fparser, optional in the source (FORMAT / and :)
  {*X}  X printed by fparser, never written in this source form (e.g. both keywords of 'character(10, ck)')
"""
import re
from vf import exprs as X

_MARK = re.compile(r"\{([~+\-,*])([^}]*)\}")

INTRINSICS_1 = ["sin", "cos", "abs", "sqrt", "exp", "int", "real", "nint", "tan", "log",
                # legacy specific names (13.6.1): intrinsics under both standards
                "dsqrt", "float", "iabs", "dabs", "alog", "dble", "sngl", "dcos", "cabs", "ifix",
                # array / inquiry intrinsics called with the minimal argument count
                "maxloc", "minloc", "maxval", "minval", "sum", "product", "size", "shape", "lbound", "ubound", "count",
                "any", "all", "transpose", "huge", "tiny", "epsilon", "kind", "floor", "ceiling", "aint", "anint",
                "len_trim", "allocated", "associated", "present", "selected_int_kind", "bit_size", "not"]
INTRINSICS_2 = ["mod", "atan2", "sign", "dim", "amod", "isign", "datan2", "idim", "dot_product", "matmul", "reshape",
                "modulo", "iand", "ior", "ieor", "ishft", "btest", "scan", "verify", "index", "selected_real_kind", "cmplx"]
INTRINSICS_N = ["max", "min", "amax1", "min0", "dmax1"]
F08_INTRINSICS = {"erf", "gamma", "shiftl", "shiftr", "shifta"}

NUM_NAMES = ["x", "y", "z1", "aB1", "a1e3", "endx", "iff", "data1", "real_x", "do10i", "format_",
             "xx", "Val", "e1", "d2", "to", "thenx", "this_is_a_sixty_three_character_long_fortran_variable_name_abcd"]
INT_NAMES = ["i", "j", "k", "n", "m", "ii", "idx"]
LOG_NAMES = ["l1", "flag", "lg", "ok"]
CHR_NAMES = ["c1", "str_", "ch", "msg"]
ARR_NAMES = ["arr", "a2", "vec", "b"]
FUN_NAMES = ["f", "g2", "fun_c", "hfn"]
SUB_NAMES = ["sub1", "s2", "work", "do_it"]
OBJ_NAMES = ["obj", "p", "this"]
COMP_NAMES = ["v", "w", "cnt", "nxt"]
TYPE_NAMES = ["t1", "tt", "vec_t"]
MOD_NAMES = ["m1", "mod_a", "util", "m_b", "Mod_C"]
UNIT_NAMES = ["prog", "main1", "calc", "unit_a", "solve", "init_x", "wrk", "helper", "fx", "gy", "Calc2", "MAIN_x", "doIt3"]
CONSTRUCT_NAMES = ["nm", "outer", "lp1", "blk1", "sel", "Lp2", "OUTER2", "a_rather_long_construct_name_with_exactly_fifty_ch"]
DEF_OPS = [".myop.", ".x.", ".plus.", ".inv."]

INT_LITS = ["1", "2", "0", "10", "42", "3_8", "7_ik", "100"]
REAL_LITS = ["1.0", "2.5", "1.0e-3", "2.5E+3", "1.d0", "3.14d-2", "0.5_dp", "1e3", "11e3", "6.02E23",
             "1.5_8", ".5", "2.d+4"]
LOG_LITS = [".true.", ".false.", ".TRUE.", ".false._lk"]
BOZ_LITS = ["b'101'", "o'17'", "z'FF'", 'Z"1a"']
STR_LITS = ["'abc'", '"abc"', "'it''s'", '"say ""hi"""', "'a!b'", "'x & y'", "'a;b'", "'(x)'", '"don\'t"',
            "''", "' '", "'a, b'", "\"it's (ok)\"", "'1.0e-3'", "'.and.'", "'''q'",
            "'end'", "'ab c'", "\"'ab c'\"", "'use !$ here'", '"c$ *$ !$omp x"', "'#if 0'", "'a // b'", "'x=1;;y'",
            "'a\x0cb'", "'\u00e9t\u00e9'", '"sep\u2028x"']


def has_top_dotted(e):
    """True if the rendered expression has a dotted operator or logical literal outside
    parentheses (the F-04 shape when it is the right operand of a defined binary operator)."""
    k = e[0]
    if k == "atom":
        return e[1].lower().startswith((".true.", ".false."))
    if k == "par":
        return False
    if k == "un":
        return e[1].startswith(".") or has_top_dotted(e[2])
    return e[1].startswith(".") or has_top_dotted(e[2]) or has_top_dotted(e[3])


class Stmt:
    __slots__ = ("label", "cname", "tmpl", "kind", "role", "block", "f08", "removable", "src", "canon",
                 "nofuse", "expr", "uid")

    def __init__(self, tmpl, kind, role="simple", label=None, cname=None, f08=False, removable=False,
                 nofuse=False, expr=None):
        self.tmpl, self.kind, self.role = tmpl, kind, role
        self.label, self.cname = label, cname
        self.block = None
        self.f08 = f08
        self.removable = removable
        self.nofuse = nofuse
        self.expr = expr
        self.src = self.canon = None
        self.uid = None

    def __repr__(self):
        return "Stmt(%s %r)" % (self.kind, self.tmpl)


class Block:
    __slots__ = ("kind", "opener", "closer", "segs", "unit", "named", "scope_name", "decls", "uses")

    def __init__(self, kind, opener, closer, segs, unit=False):
        self.kind, self.opener, self.closer, self.segs, self.unit = kind, opener, closer, segs, unit
        if opener is not None:
            opener.block = self
            opener.role = "open"
        if closer is not None:
            closer.block = self
            closer.role = "close"
        for mid, _ in segs:
            if mid is not None:
                mid.block = self
                mid.role = "mid"
        self.named = False
        self.scope_name = None
        self.decls = []
        self.uses = []


def flatten(items, depth=0, out=None):
    """[(Stmt, depth)] in source order."""
    out = [] if out is None else out
    for it in items:
        if isinstance(it, Stmt):
            out.append((it, depth))
        else:
            if it.opener is not None:
                out.append((it.opener, depth))
            for mid, body in it.segs:
                if mid is not None:
                    out.append((mid, depth))
                flatten(body, depth + 1, out)
            if it.closer is not None:
                out.append((it.closer, depth))
    return out


def blocks_of(items, depth=0, out=None):
    out = [] if out is None else out
    for it in items:
        if isinstance(it, Block):
            out.append((it, depth))
            for _, body in it.segs:
                blocks_of(body, depth + 1, out)
    return out


def resolve(tmpl, choose=None):
    """Return (source text, canonical text).  choose() -> bool decides, per marker,
    whether the source uses the non-canonical variant; None = canonical source."""
    def src_sub(m):
        k, x = m.group(1), m.group(2)
        var = bool(choose and choose())
        if k == "~":
            return "" if var else " "
        if k == "+":
            return "" if var else x
        if k == "-":
            return x if var else ""
        if k == "*":
            return ""                       # never written in the source, always printed by fparser
        return "" if var else ", "

    def can_sub(m):
        k, x = m.group(1), m.group(2)
        return {"~": " ", "+": x, "-": "", ",": ", ", "*": x}[k]

    return _MARK.sub(src_sub, tmpl), _MARK.sub(can_sub, tmpl)


class R:
    """Thin wrapper giving shrink-friendly primitives over a Random-like object."""

    def __init__(self, rnd):
        self.rnd = rnd

    def n(self, lo, hi):
        return self.rnd.randint(lo, hi)

    def chance(self, pct):
        """True with probability pct/100; the minimal draw (0) means False."""
        return self.rnd.randint(0, 99) >= 100 - pct

    def pick(self, seq):
        return seq[self.rnd.randint(0, len(seq) - 1)]

    def wpick(self, pairs):
        """pairs [(weight, value)]; first entries are the 'simplest'."""
        tot = sum(w for w, _ in pairs)
        r = self.rnd.randint(0, tot - 1)
        for w, v in pairs:
            if r < w:
                return v
            r -= w
        return pairs[-1][1]


class Opts:
    """Generator options / feature flags (exclusions switched on by live known findings)."""

    def __init__(self, **kw):
        self.f08 = False                # allow F2008-only productions
        self.force_f08 = False          # at least one F2008-only production
        self.variants = False           # use non-canonical source variants (C02)
        self.max_units = 3
        self.max_depth = 3
        self.max_stmts = 5
        self.expr_depth = 3
        self.fixed_ok = False           # restrict to what the fixed-form engine can express
        self.intrinsic_shadow = False
        self.excl = set()               # exclusion flags
        self.f77 = False                # fparser1 subset (C19)
        self.unit_pool = None           # restrict program-unit / subprogram names to this list (name coincidences
        #                                 between the sources of one history, C09)
        for k, v in kw.items():
            assert hasattr(self, k), k
            setattr(self, k, v)


class Gen:
    def __init__(self, rnd, opts=None):
        self.r = R(rnd)
        self.o = opts or Opts()
        self.used_unit_names = set()
        self.excluded = {}               # exclusion flag -> times a shape was avoided
        self.f08_used = 0

    # ---------------------------------------------------------------- helpers
    def avoid(self, flag):
        if flag in self.o.excl:
            self.excluded[flag] = self.excluded.get(flag, 0) + 1
            return True
        return False

    def name(self, pool):
        return self.r.pick(pool)

    def shuffled(self, items):
        """A permutation of items drawn through the case's random source (shrinks towards the given order)."""
        items = list(items)
        out = []
        while items:
            out.append(items.pop(self.r.n(0, len(items) - 1)))
        return out

    def fresh_unit_name(self, pool=UNIT_NAMES):
        if pool is UNIT_NAMES and self.o.unit_pool:
            pool = self.o.unit_pool
        for _ in range(30):
            nm = self.r.pick(pool)
            if nm not in self.used_unit_names:
                self.used_unit_names.add(nm)
                return nm
        nm = "u%d" % len(self.used_unit_names)
        self.used_unit_names.add(nm)
        return nm

    # ------------------------------------------------------------ expressions
    def int_lit(self):
        return self.r.pick(INT_LITS)

    def small_int(self):
        return str(self.r.n(1, 9))

    def int_tree(self, d=1):
        r = self.r
        c = r.n(0, 5 if d > 0 else 2)
        if c == 0:
            return ("atom", self.name(INT_NAMES))
        if c == 1:
            return ("atom", self.int_lit())
        if c == 2:
            return ("atom", self.small_int())
        if c == 3:
            return ("bin", r.pick(["+", "-", "*"]), self.int_tree(d - 1), self.int_tree(d - 1))
        if c == 4:
            nm = r.pick(["size", "len", "mod", "abs"])
            return ("atom", "%s(%s)" % (nm, self._intr_args(nm)))
        return ("un", "-", ("atom", self.name(INT_NAMES)))

    def int_expr(self, d=1):
        return X.render(X.minimal(self.int_tree(d)))

    def _intr_args(self, nm):
        if nm == "size":
            return self.name(ARR_NAMES)
        if nm == "len":
            return self.name(CHR_NAMES)
        if nm == "mod":
            return "%s, %s" % (self.name(INT_NAMES), self.small_int())
        return self.name(INT_NAMES)

    def subscript(self, d):
        r = self.r
        c = r.n(0, 6)
        if c <= 2:
            return self.int_expr(d)
        if c == 3:
            return ":"
        if c == 4:
            return "%s:%s" % (self.int_expr(0), self.int_expr(0))
        if c == 5:
            return "%s:%s:%s" % (self.int_expr(0), self.int_expr(0), self.small_int())
        return r.pick(["::2", "2:", ":n", "-1"])

    def array_ref(self, d):
        n = self.r.n(1, 2)
        return "%s(%s)" % (self.name(ARR_NAMES), ", ".join(self.subscript(d - 1) for _ in range(n)))

    def component_ref(self, d):
        r = self.r
        s = self.name(OBJ_NAMES)
        if r.chance(25):
            s += "(%s)" % self.int_expr(0)
        for _ in range(r.n(1, 2)):
            s += "%" + self.name(COMP_NAMES)
            if r.chance(25):
                s += "(%s)" % self.subscript(0)
        return s

    def fun_ref(self, d):
        r = self.r
        n = r.n(0, 3)
        args = []
        for i in range(n):
            a = X.render(X.minimal(self.num_tree(d - 1)))
            if i == n - 1 and r.chance(20):
                a = "%s = %s" % (r.pick(["key", "opt", "n"]), a)
            args.append(a)
        return "%s(%s)" % (self.name(FUN_NAMES), ", ".join(args))

    def intrinsic_ref(self, d):
        r = self.r
        c = r.n(0, 2)
        sub = lambda: X.render(X.minimal(self.num_tree(d - 1)))  # noqa: E731
        if c == 0:
            nm = r.pick(INTRINSICS_1)
            return "%s(%s)" % (nm, sub())
        if c == 1:
            nm = r.pick(INTRINSICS_2)
            return "%s(%s, %s)" % (nm, sub(), sub())
        nm = r.pick(INTRINSICS_N)
        return "%s(%s)" % (nm, ", ".join(sub() for _ in range(r.n(2, 4))))

    def complex_lit(self):
        r = self.r
        return "(%s, %s)" % (r.pick(["1.0", "-1.0", "2.5e3", "0"]), r.pick(["2.0", "+3.0", "1d0", "-4"]))

    def array_cons(self, d):
        r = self.r
        c = r.n(0, 3)
        items = ", ".join(X.render(X.minimal(self.num_tree(d - 1))) for _ in range(r.n(1, 3)))
        if c == 0:
            return "(/ %s /)" % items
        if c == 1:
            return "[%s]" % items
        if c == 2:
            v = self.name(INT_NAMES)
            return "(/ (%s, %s = 1, %s%s) /)" % (X.render(X.minimal(self.num_tree(d - 1))), v, self.small_int(),
                                                  r.pick(["", "", ", 2", ", -1"]))
        return "[%s :: %s]" % (r.pick(["real", "integer", "real(kind = 8)"]), items)

    def num_atom(self, d):
        r = self.r
        hi = 9 if d > 0 else 3
        c = r.n(0, hi)
        if c == 0:
            return self.name(NUM_NAMES)
        if c == 1:
            return self.int_lit()
        if c == 2:
            return r.pick(REAL_LITS)
        if c == 3:
            return self.name(INT_NAMES)
        if c == 4:
            return self.array_ref(d)
        if c == 5:
            return self.fun_ref(d)
        if c == 6:
            return self.intrinsic_ref(d)
        if c == 7:
            return self.component_ref(d)
        if c == 8:
            return self.complex_lit()
        if r.chance(50):
            return self.array_cons(d)
        if r.chance(25):
            return "int(%s)" % r.pick(["z'1F'", "b'1011'", "o'17'", 'z"ff"', "B'0'"])      # boz-literal-constant (R411)
        return self.array_ref(d)

    def num_tree(self, d):
        r = self.r
        if d <= 0 or r.chance(35):
            return ("atom", self.num_atom(d))
        c = r.n(0, 9)
        if c <= 5:
            op = r.pick(["+", "-", "*", "/", "**", "+", "*"])
            return ("bin", op, self.num_tree(d - 1), self.num_tree(d - 1))
        if c <= 7:
            return ("un", r.pick(["-", "+"]), self.num_tree(d - 1))
        if c == 8:
            return ("par", self.num_tree(d - 1))
        if self.avoid("no_defined_unary"):
            return ("par", self.num_tree(d - 1))
        return ("un", r.pick(DEF_OPS), self.num_tree(d - 1))

    def chr_atom(self, d):
        r = self.r
        c = r.n(0, 4)
        if c == 0:
            return self.name(CHR_NAMES)
        if c <= 2:
            return r.pick(STR_LITS)
        if c == 3:
            if r.chance(25):
                return "%s(%s:%s)" % (r.pick(["'abcdef'", '"xyz uvw"']), self.small_int(), r.pick(["", "3", "n"]))   # R609 on a literal
            return "%s(%s:%s)" % (self.name(CHR_NAMES), self.small_int(), self.int_expr(0))
        return "trim(%s)" % self.name(CHR_NAMES)

    def chr_tree(self, d):
        r = self.r
        if d <= 0 or r.chance(50):
            return ("atom", self.chr_atom(d))
        if r.chance(15):
            return ("par", self.chr_tree(d - 1))
        return ("bin", "//", self.chr_tree(d - 1), self.chr_tree(d - 1))

    def log_tree(self, d):
        r = self.r
        if d <= 0:
            return ("atom", r.pick(LOG_NAMES + LOG_LITS[:2]))
        c = r.n(0, 11)
        if c <= 3:
            op = r.pick(list(X.REL_OPS))
            if r.chance(15):
                return ("bin", op, self.chr_tree(d - 1), self.chr_tree(d - 1))
            return ("bin", op, self.num_tree(d - 1), self.num_tree(d - 1))
        if c <= 6:
            op = r.pick([".and.", ".or.", ".and.", ".or.", ".eqv.", ".neqv."])
            return ("bin", op, self.log_tree(d - 1), self.log_tree(d - 1))
        if c == 7:
            return ("un", ".not.", self.log_tree(d - 1))
        if c == 8:
            return ("par", self.log_tree(d - 1))
        if c == 9:
            return ("atom", r.pick(LOG_NAMES + LOG_LITS))
        if c == 10:
            if self.avoid("no_defined_binop"):
                return ("atom", r.pick(LOG_NAMES))
            l, rr = self.log_tree(d - 1), self.log_tree(d - 1)
            if has_top_dotted(rr) and self.avoid("no_defined_binop_before_dotted"):
                rr = ("par", rr)
            return ("bin", r.pick(DEF_OPS), l, rr)
        return ("atom", "%s(%s)" % (r.pick(["present", "allocated", "associated"]),
                                    self.name(OBJ_NAMES + ARR_NAMES)))

    def tree(self, typ, d=None):
        d = self.o.expr_depth if d is None else d
        if typ == "num":
            return self.num_tree(d)
        if typ == "log":
            return self.log_tree(d)
        if typ == "chr":
            return self.chr_tree(d)
        return self.num_tree(d)

    def expr(self, typ="num", d=None):
        return X.render(X.minimal(self.tree(typ, d)))

    def variable(self, typ="num"):
        r = self.r
        if typ == "log":
            return self.name(LOG_NAMES)
        if typ == "chr":
            c = r.n(0, 2)
            if c < 2:
                return self.name(CHR_NAMES)
            return "%s(%s:%s)" % (self.name(CHR_NAMES), self.small_int(), self.small_int())
        c = r.n(0, 4)
        if c <= 1:
            return self.name(NUM_NAMES)
        if c == 2:
            return self.array_ref(1)
        if c == 3:
            return self.component_ref(1)
        return self.name(INT_NAMES)

    # --------------------------------------------------------- spec statements
    def kind_sel(self, typ):
        """Type spec template."""
        r = self.r
        if typ == "character":
            c = r.n(0, 6)
            if c == 0:
                return "character"
            if c == 1:
                return "character({+len = }%s)" % r.pick(["10", "*", "n", ":"])
            if c == 2:
                return "character(len = %s)" % r.pick(["10", "*", "n + 1"])
            if c == 3:
                return "character*%s" % r.pick(["10", "(*)", "8"])
            if c == 4:
                return "character(len = %s, kind = %s)" % (self.small_int(), r.pick(["1", "ck"]))
            if c == 5:
                forms = ["character(kind = ck)", "character({*len = }%s, {*kind = }ck)" % r.pick(["10", "2 * (n + 1)", "len(msg)"]),
                         "character({+len = }2 * (n + 1), kind = ck)"]
                if not self.o.variants:
                    # KIND first is printed LEN first by fparser (a re-ordering the token check C02 would rightly
                    # flag as undocumented), so these forms are only used where trees/texts are compared
                    forms += ["character(kind = ck, len = %s)" % r.pick(["5", "2 * (n + 1)", "f(3)"]),
                              "character(kind = kind('a'), len = 3)"]
                return r.pick(forms)
            return "character(len = 5)"
        if typ == "double precision":
            return "double{~}precision"
        c = r.n(0, 4)
        if c <= 1:
            return typ
        if c == 2:
            return "%s({+kind = }%s)" % (typ, r.pick(["4", "8", "dp", "kind(1.0)"]))
        if c == 3:
            return "%s(kind = %s)" % (typ, r.pick(["4", "8", "dp"]))
        return "%s*%s" % (typ, r.pick(["4", "8"]))

    def array_spec(self, component=False):
        r = self.r
        c = r.n(0, 4 if component else 5)
        if c == 0:
            return self.small_int()
        if c == 1:
            return "%s, %s" % (self.small_int(), self.name(INT_NAMES))
        if c == 2:
            return ":"
        if c == 3:
            return ":, :"
        if c == 4:
            return "0:%s" % self.small_int()
        return r.pick(["*", "n, *", "-1:1, 2", "n + 1"])

    def type_decl(self, ctx):
        r = self.r
        typ = r.pick(["integer", "real", "logical", "character", "complex", "double precision", "real", "integer"])
        pool = {"integer": INT_NAMES, "logical": LOG_NAMES, "character": CHR_NAMES}.get(typ, NUM_NAMES + ARR_NAMES)
        spec = self.kind_sel(typ)
        attrs = []
        if r.chance(50):
            cand = ["dimension(%s)" % self.array_spec(ctx.get("component")), "save", "allocatable", "pointer", "target", "parameter",
                    "volatile", "asynchronous"]
            if ctx.get("dummies"):
                cand += ["intent(in)", "intent(out)", "intent(in{~}out)", "optional", "value", "intent(in)"]
            if ctx.get("module"):
                cand += ["public", "private", "protected", "bind(c)"]
            if self.o.f08 and r.chance(30):
                cand += ["contiguous", "codimension[*]"]
            for _ in range(r.n(1, 3)):
                a = r.pick(cand)
                base = a.split("(")[0].split("[")[0]
                if all(not b.startswith(base) for b in attrs):
                    attrs.append(a)
            # keep it plausible
            if "parameter" in attrs:
                attrs = [a for a in attrs if a in ("parameter",) or a.startswith("dimension") or a in ("public", "private")]
        f08 = any(a in ("contiguous",) or a.startswith("codimension") for a in attrs)
        if "contiguous" in attrs and not any(a.startswith("dimension") for a in attrs):
            attrs.append("dimension(:)")
            if "pointer" not in attrs:
                attrs.append("pointer")
        ents = []
        names = []
        for _ in range(r.n(1, 3)):
            nm = self.name(pool)
            if nm in names:
                continue
            names.append(nm)
            e = nm
            if r.chance(20) and not any(a.startswith("dimension") for a in attrs):
                e += "(%s)" % self.array_spec(ctx.get("component"))
            if typ == "character" and r.chance(15):
                e += "*%s" % r.pick(["5", "(*)"])
            if "parameter" in attrs:
                e += " = " + self._init_for(typ)
            elif "pointer" in attrs:
                if r.chance(30):
                    e += " => null()"
            elif r.chance(20) and not ctx.get("dummies"):
                e += " = " + self._init_for(typ)
            ents.append(e)
        need_colons = bool(attrs) or any("=" in e for e in ents)
        sep = " :: " if need_colons else " {+:: }"
        s = spec + "".join(", " + a for a in attrs) + sep + ", ".join(ents)
        st = Stmt(s, "type_decl", f08=f08, removable=True)
        st.expr = (typ, names)
        return st

    def _init_for(self, typ):
        r = self.r
        if typ == "integer":
            return self.int_expr(1)
        if typ == "logical":
            return r.pick(LOG_LITS)
        if typ == "character":
            return r.pick(STR_LITS)
        if typ == "complex":
            return self.complex_lit()
        return r.pick(REAL_LITS + ["-1.0", "2 * 3.0"])

    def use_stmt(self):
        r = self.r
        c = r.n(0, 5)
        m = self.name(MOD_NAMES + ["iso_c_binding", "other_mod"])
        if c == 0:
            return Stmt("use %s" % m, "use")
        if c == 1:
            return Stmt("use %s, only: %s" % (m, ", ".join(self._only_items())), "use")
        if c == 2:
            return Stmt("use, intrinsic :: iso_c_binding", "use")
        if c == 3:
            return Stmt("use %s, %s => %s" % (m, self.name(NUM_NAMES), r.pick(["rem1", "rem2"])), "use")
        if c == 4:
            return Stmt("use :: %s" % m, "use")
        k = r.n(0, 3)
        if k == 0:
            return Stmt("use %s, only:" % m, "use")
        if k == 1:
            # defined-I/O generic specifications
            return Stmt("use %s, only: %s" % (m, r.pick(["read(formatted)", "write(unformatted), %s" % self.name(NUM_NAMES),
                                                         "%s, write(formatted)" % self.name(TYPE_NAMES)])), "use")
        return Stmt("use, non_intrinsic :: %s, only: operator(.myop.), assignment(=)" % m, "use", nofuse=True)

    def _only_items(self):
        r = self.r
        out = []
        for _ in range(r.n(1, 3)):
            if r.chance(25):
                out.append("%s => %s" % (self.name(NUM_NAMES), r.pick(["rem1", "rem2", "orig"])))
            else:
                out.append(self.name(NUM_NAMES + FUN_NAMES + TYPE_NAMES))
        return out

    def implicit_stmt(self):
        r = self.r
        c = r.n(0, 3)
        if c <= 1:
            return Stmt("implicit none", "implicit")
        if c == 2:
            return Stmt("implicit real (a-h, o-z)", "implicit")
        return Stmt("implicit double{~}precision (d), integer (i-n), character(len = 4) (c)", "implicit")

    def attr_stmt(self, ctx):
        r = self.r
        nm = lambda pool=NUM_NAMES: self.name(pool)  # noqa: E731
        cands = [
            lambda: "dimension {+:: }%s(%s)" % (nm(ARR_NAMES), self.array_spec()),
            lambda: "save",
            lambda: "save {+:: }%s, /blk/" % nm(),
            lambda: "external {+:: }%s" % nm(FUN_NAMES),
            lambda: "intrinsic {+:: }%s" % r.pick(["sin", "cos", "max"]),
            lambda: "common /blk/ %s, %s(%s)" % (nm(), nm(ARR_NAMES), self.small_int()),
            lambda: "common // %s" % nm(),
            lambda: ("common /blk/ %s" if self.avoid("no_blank_common_without_slashes") else "common %s, %s")
            .replace("/blk/ %s", "/blk/ %s, %s") % (nm(), nm(INT_NAMES)),
            lambda: "equivalence (%s, %s)" % (nm(), nm(ARR_NAMES) + "(1)"),
            lambda: "namelist /nl/ %s, %s" % (nm(), nm(INT_NAMES)),
            lambda: "data %s /%s/" % (nm(), r.pick(REAL_LITS)),
            lambda: "data %s, %s /1, 2/, %s /3*0.0/" % (nm(INT_NAMES), nm(), nm(ARR_NAMES)),
            lambda: "data (%s(%s), %s = 1, 3) /1.0, 2.0, 3.0/" % (nm(ARR_NAMES), "i", "i"),
            lambda: "data %s /%s/, %s /%s/" % (nm(INT_NAMES), r.pick(["z'1F'", "b'101'", "o'17'"]), nm(INT_NAMES), r.pick(['Z"ff"', "B'0'"])),
            lambda: "data ((%s(i, j), i = 1, 2), j = 1, 3) /6*0/" % nm(ARR_NAMES),
            # three and four data-stmt-sets; the comma between sets is optional (R524)
            lambda: "data %s /1/{,}%s /2/{,}%s /3.0/" % (nm(INT_NAMES), nm(INT_NAMES), nm()),
            lambda: "data %s /1/{,}%s /2*0/{,}%s /3.0/{,}%s /.true./" % (nm(INT_NAMES), nm(ARR_NAMES), nm(), nm(LOG_NAMES)),
            lambda: "data (%s(i), i = 1, 9, 2) /5*1/, ((%s(i, j), i = 1, 4, 3), j = 2, 6, 2) /6*0.0/" % (nm(ARR_NAMES), nm(ARR_NAMES)),
            lambda: "data %s%%%s, %s(2) /1, 2*%s/" % (nm(OBJ_NAMES), nm(COMP_NAMES), nm(ARR_NAMES), r.pick(["0", "pi", "null()"])),
            lambda: "parameter (%s = %s)" % (nm(), self.expr("num", 1)),
            lambda: "allocatable {+:: }%s" % nm(ARR_NAMES),
            lambda: "allocatable :: %s(:, :)" % nm(ARR_NAMES),
            lambda: "pointer {+:: }%s" % nm(OBJ_NAMES),
            lambda: "target {+:: }%s, %s(%s)" % (nm(), nm(ARR_NAMES), self.small_int()),
            lambda: "volatile {+:: }%s" % nm(),
            lambda: "asynchronous {+:: }%s" % nm(),
            lambda: "procedure(%s), pointer :: %s" % (nm(FUN_NAMES), r.pick(["pp", "pq"])),
            lambda: "procedure(real) :: %s" % r.pick(["pp", "pq"]),
            lambda: "procedure(), pointer :: pq => null()",
            lambda: "type(%s) :: %s" % (nm(TYPE_NAMES), nm(OBJ_NAMES)),
            lambda: "type(%s), pointer :: %s => null()" % (nm(TYPE_NAMES), nm(OBJ_NAMES)),
            lambda: "class(%s), allocatable :: %s" % (nm(TYPE_NAMES), nm(OBJ_NAMES)),
            lambda: "class(*), pointer :: %s" % nm(OBJ_NAMES),
            lambda: "type(%s(%s)) :: %s" % (nm(TYPE_NAMES), r.pick(["4", "k = 4", "n, :"]), nm(OBJ_NAMES)),
        ]
        if ctx.get("dummies"):
            cands += [
                lambda: "intent(%s) {+:: }%s" % (r.pick(["in", "out", "in{~}out"]), nm()),
                lambda: "optional {+:: }%s" % nm(),
                lambda: "value {+:: }%s" % nm(),
            ]
        if ctx.get("module"):
            cands += [
                lambda: "public",
                lambda: "private",
                lambda: "public {+:: }%s, %s" % (nm(), nm(FUN_NAMES)),
                lambda: "private :: operator(.myop.), assignment(=), %s" % nm(),
                lambda: "protected {+:: }%s" % nm(),
                lambda: "bind(c, name = %s) :: %s" % (r.pick(["'c_x'", '"CY"']), nm()),
                lambda: "bind(c) :: /blk/",
            ]
        t = r.pick(cands)()
        return Stmt(t, "attr", nofuse=("operator(" in t or "common //" in t), removable=False)

    def format_items(self, d=1):
        r = self.r
        items = []
        for _ in range(r.n(1, 4)):
            c = r.n(0, 11)
            if c == 0:
                items.append(r.pick(["i2", "i5.3", "3i4", "I8"]))
            elif c == 1:
                items.append(r.pick(["f8.3", "2f10.4", "e12.4", "e12.4e2", "d12.5", "g12.5", "es10.3", "en12.3"]))
            elif c == 2:
                items.append(r.pick(["a", "a10", "2a", "l2", "b8", "o4", "z8.4"]))
            elif c == 3:
                items.append(r.pick(["2x", "1x", "t10", "tl2", "tr3"]))
            elif c == 4:
                items.append(r.pick(STR_LITS[:8]))
            elif c == 5:
                items.append("/")
            elif c == 6:
                items.append(":")
            elif c == 7:
                items.append(r.pick(["1p", "2P", "-1p"]))
            elif c == 8 and d > 0:
                items.append("%s(%s)" % (r.pick(["", "2", "3"]), self.format_items(d - 1)))
            elif c == 9:
                items.append(r.pick(["ss", "sp", "s", "bn", "bz", "ru", "dc", "dp"]))
            elif c == 10 and self.o.f08 and d > 0:
                items.append("*(%s)" % self.format_items(0))
                self.f08_used += 1
            else:
                items.append(r.pick(["i3", "f6.2", "a"]))
        # join: commas optional around '/' and ':' and after kP
        out = items[0]
        opt = "{,}"
        for prev, it in zip(items, items[1:]):
            if prev in ("/", ":") or it in ("/", ":"):
                out += (", " if self.avoid("no_format_comma_omitted") else opt) + it
            elif re.fullmatch(r"[-+]?\d+[pP]", prev) and re.match(r"\d*(?:[fFdDgG]|[eE][nNsS]?)\d", it):
                out += (", " if self.avoid("no_format_comma_omitted") else opt) + it
            else:
                out += ", " + it
        return out

    def format_stmt(self, label):
        f08_before = self.f08_used
        body = self.format_items(1)
        return Stmt("format(%s)" % body, "format", label=label, nofuse=True, f08=self.f08_used > f08_before)

    # --------------------------------------------------------- exec statements
    def wide_stmt(self):
        """A statement with 10-16 distinct parenthesised groups at one nesting level (long sums of references,
        long argument lists, many array entities): exercises fparser's per-line replacement maps beyond key 9."""
        r = self.r
        n = r.n(10, 16)
        c = r.n(0, 3)
        terms = []
        for i in range(n):
            k = r.n(0, 3)
            if k == 0:
                terms.append("%s(%d, %d)" % (self.name(ARR_NAMES), i + 1, 2 * i + 3))
            elif k == 1:
                terms.append("%s(%s, %d)" % (self.name(FUN_NAMES), self.name(NUM_NAMES), i))
            elif k == 2:
                terms.append("(%s %s %d)" % (self.name(NUM_NAMES), r.pick(["+", "*", "-"]), i + 20))
            else:
                terms.append("%s(%d:%d)" % (self.name(ARR_NAMES), i, i + 40))
        if c == 0:
            return Stmt("%s = %s" % (self.name(NUM_NAMES), " + ".join(terms)), "assign", removable=True)
        if c == 1:
            return Stmt("%s = %s" % (self.name(NUM_NAMES), " * ".join(terms)), "assign", removable=True)
        if c == 2:
            return Stmt("call %s(%s)" % (self.name(SUB_NAMES), ", ".join(terms)), "call", removable=True)
        return Stmt("print *, %s" % ", ".join(terms), "print", removable=True)

    def wide_decl(self):
        n = self.r.n(10, 14)
        ents = ["w%d(%d, %d)" % (i, i + 1, 2 * i + 30) for i in range(n)]
        return Stmt("real :: %s" % ", ".join(ents), "type_decl", removable=True)

    def assign_stmt(self):
        r = self.r
        if r.chance(4):
            return self.wide_stmt()
        typ = r.wpick([(6, "num"), (2, "log"), (2, "chr")])
        t = self.tree(typ)
        lhs = self.variable(typ)
        st = Stmt("%s = %s" % (lhs, X.render(X.minimal(t))), "assign", removable=True)
        st.expr = t
        return st

    def io_control(self, kind):
        r = self.r
        unit = r.pick(["6", "*", "10", "lun", "unit = 10", "unit = lun"])
        if kind in ("read", "write"):
            c = r.n(0, 5)
            if c == 0:
                return "%s, *" % unit.replace("unit = ", "") if "=" not in unit else "%s, fmt = *" % unit
            if c == 1:
                return "%s, %s" % (unit.replace("unit = ", ""), r.pick(["'(a)'", "'(i2, 1x, f8.3)'", '"(2a)"']))
            if c == 2:
                return "%s, fmt = %s, iostat = ios" % (unit, r.pick(["'(a)'", "*"]))
            if c == 3:
                return "%s" % unit
            if c == 4:
                return "%s, nml = nl" % unit
            return ", ".join(self.shuffled(["unit = %s" % r.pick(["10", "*"]), "fmt = *",
                                            r.pick(["err = %LABEL%", "end = %LABEL%", "advance = 'no'"])]))
        return unit

    def io_list(self, out=True):
        r = self.r
        items = []
        for _ in range(r.n(1, 3)):
            c = r.n(0, 4)
            if c <= 1 or not out:
                items.append(self.variable(r.pick(["num", "num", "chr"])))
            elif c == 2:
                items.append(self.expr("num", 1))
            elif c == 3:
                items.append(r.pick(STR_LITS))
            else:
                v = self.name(INT_NAMES)
                items.append("(%s(%s), %s = 1, %s%s)" % (self.name(ARR_NAMES), v, v, self.small_int(),
                                                        self.r.pick(["", "", ", 2", ", n"])))
        return ", ".join(items)

    def simple_exec(self, ctx):
        """One simple executable statement (never a branch-target consumer)."""
        r = self.r
        c = r.n(0, 31)
        S = Stmt
        if c == 31:
            c = 0
        if c <= 7:
            return self.assign_stmt()
        if c == 8:
            if r.chance(30):
                # bounds-spec-list / bounds-remapping-list (R735) and a component as pointer object
                lhs = r.pick(["%s(%s:)" % (self.name(OBJ_NAMES), self.small_int()),
                              "%s(1:%s, 0:%s)" % (self.name(OBJ_NAMES), self.small_int(), self.name(INT_NAMES)),
                              "%s(0:, %s:)" % (self.name(OBJ_NAMES), self.name(INT_NAMES)),
                              "%s%%%s" % (self.name(OBJ_NAMES), self.name(COMP_NAMES))])
                return S("%s => %s" % (lhs, r.pick([self.name(ARR_NAMES), self.name(OBJ_NAMES)])), "ptr_assign", removable=True)
            return S("%s => %s" % (self.name(OBJ_NAMES), r.pick(["null()", self.name(OBJ_NAMES), self.array_ref(1)])),
                     "ptr_assign", removable=True)
        if c <= 10:
            args = []
            for i in range(r.n(0, 3)):
                k = r.n(0, 5)
                if k <= 2:
                    args.append(self.expr(r.pick(["num", "num", "chr", "log"]), 1))
                elif k == 3:
                    args.append("%s = %s" % (r.pick(["key", "opt"]), self.expr("num", 1)))
                else:
                    args.append(self.variable("num"))
            nm = self.name(SUB_NAMES)
            if r.chance(8) and "new_target" in ctx:
                args.append("*%s" % ctx["new_target"]())         # alt-return-spec (R1222)
            if r.chance(20):
                # procedure designator through a component, possibly of an array element (R1219)
                nm = r.pick(["%s%%%s" % (self.name(OBJ_NAMES), r.pick(["m", "run"])),
                             "%s(%s)%%%s" % (self.name(OBJ_NAMES), self.int_expr(1), r.pick(["m", "run"])),
                             "%s%%%s(%s, %s)%%%s" % (self.name(OBJ_NAMES), self.name(COMP_NAMES), self.int_expr(1),
                                                    self.name(INT_NAMES), r.pick(["m", "run"]))])
            if not args:
                return S("call %s{-()}" % nm, "call", removable=True)
            return S("call %s(%s)" % (nm, ", ".join(args)), "call", removable=True)
        if c == 11:
            inner = self.assign_stmt() if r.chance(70) else S("call %s{-()}" % self.name(SUB_NAMES), "call")
            return S("if (%s) %s" % (self.expr("log", 2), inner.tmpl), "if_stmt", removable=True)
        if c == 12:
            return S("where (%s > 0) %s = %s" % (self.name(ARR_NAMES), self.name(ARR_NAMES), self.expr("num", 1)),
                     "where_stmt", removable=True)
        if c == 13:
            v = self.name(INT_NAMES)
            hdr = "%s = 1:%s" % (v, self.small_int())
            if r.chance(30):
                hdr += ", %s = 1:n:2" % r.pick(["jj", "kk"])
            if r.chance(30):
                hdr += ", %s(%s) > 0" % (self.name(ARR_NAMES), v)
            return S("forall (%s) %s(%s) = %s" % (hdr, self.name(ARR_NAMES), v, self.expr("num", 1)),
                     "forall_stmt", removable=True)
        if c == 14:
            return S("continue", "continue", removable=True)
        if c == 15:
            k = r.n(0, 3)
            if k == 0:
                return S("stop", "stop", removable=True)
            if k == 1:
                return S("stop %s" % r.pick(["1", "'done'", '"err"', "12345"]), "stop", removable=True)
            if k == 2 and ctx.get("subprogram"):
                return S("return", "return", removable=True)
            if self.o.f08:
                self.f08_used += 1
                return S("error stop%s" % r.pick(["", " 1", " 'bad'"]), "error_stop", f08=True, removable=True)
            return S("stop", "stop", removable=True)
        if c == 16:
            objs = []
            for _ in range(r.n(1, 2)):
                objs.append(r.pick(["%s(%s)" % (self.name(ARR_NAMES), self.int_expr(1)),
                                    "%s(0:%s)" % (self.name(ARR_NAMES), self.int_expr(1)),
                                    "%s(-1:1, %s)" % (self.name(ARR_NAMES), self.small_int()),
                                    "%s(%s:%s, 2:n)" % (self.name(ARR_NAMES), self.small_int(), self.int_expr(0))])
                            if r.chance(70)
                            else "%s%%%s(%s)" % (self.name(OBJ_NAMES), self.name(COMP_NAMES), self.small_int()))
            opt = r.pick(["", "", ", stat = ios", ", stat = ios, errmsg = msg", ", source = %s" % self.name(ARR_NAMES)])
            if self.o.f08 and r.chance(20):
                opt = ", mold = %s" % self.name(ARR_NAMES)
                self.f08_used += 1
                return S("allocate(%s%s)" % (", ".join(objs), opt), "allocate", f08=True, removable=True)
            if r.chance(15):
                return S("allocate(%s :: %s%s)" % (r.pick(["real", "integer", "t1", "character(len = 5)"]),
                                                   ", ".join(objs), opt), "allocate", removable=True)
            return S("allocate(%s%s)" % (", ".join(objs), opt), "allocate", removable=True)
        if c == 17:
            return S("deallocate(%s%s)" % (self.name(ARR_NAMES), r.pick(["", ", stat = ios"])), "deallocate",
                     removable=True)
        if c == 18:
            return S("nullify(%s)" % ", ".join(self.name(OBJ_NAMES) for _ in range(r.n(1, 2))), "nullify",
                     removable=True)
        if c == 19:
            specs = ["{+unit = }%s" % r.pick(["10", "lun"])]
            for s in ["file = %s" % r.pick(["'f.txt'", "fname", '"d/x.dat"']), "status = 'old'", "iostat = ios",
                      "form = 'formatted'", "action = 'read'"]:
                if r.chance(40):
                    specs.append(s)
            if self.o.f08 and r.chance(25):
                self.f08_used += 1
                return S("open(%s)" % r.pick(["newunit = lun, file = 'f.txt'", "file = 'f.txt', newunit = lun",
                                               "status = 'old', newunit = lun, file = fname"]), "open", f08=True, removable=True)
            if r.chance(30):
                # all specifiers by keyword: any order (C904/C905 only restrict a unit without 'UNIT=')
                specs[0] = "unit = %s" % r.pick(["10", "lun"])
                specs = self.shuffled(specs)
            return S("open(%s)" % ", ".join(specs), "open", removable=True)
        if c == 20 and r.chance(30):
            return S("close(%s)" % ", ".join(self.shuffled(["unit = %s" % r.pick(["10", "lun"]), "iostat = ios",
                                                            "status = 'keep'"][:r.n(2, 3)])), "close", removable=True)
        if c == 20:
            return S("close({+unit = }%s%s)" % (r.pick(["10", "lun"]), r.pick(["", ", status = 'keep'", ", iostat = ios"])),
                     "close", removable=True)
        if c in (21, 22):
            kind = "write" if c == 21 else "read"
            ctl = self.io_control(kind)
            if "%LABEL%" in ctl:
                ctl = ctl.replace("%LABEL%", ctx["new_target"]())
            lst = self.io_list(out=(kind == "write"))
            if "nml" in ctl:
                return S("%s(%s)" % (kind, ctl), kind, removable=True)
            return S("%s(%s) %s" % (kind, ctl, lst), kind, removable=True)
        if c == 23:
            k = r.n(0, 2)
            if k == 0:
                return S("print *, %s" % self.io_list(), "print", removable=True)
            if k == 1:
                return S("print %s, %s" % (r.pick(["'(a)'", '"(i2)"', "'(2(a, 1x))'"]), self.io_list()), "print",
                         removable=True)
            return S("print *", "print", removable=True)
        if c == 24:
            if r.chance(30):
                return S("inquire(%s)" % ", ".join(self.shuffled([r.pick(["unit = 10", "file = 'f.txt'"]), "exist = ok",
                                                                  "iostat = ios", "opened = flag"][:r.n(2, 4)])),
                         "inquire", removable=True)
            return S("inquire(%s, %s)" % (r.pick(["unit = 10", "file = 'f.txt'", "{+unit = }10"]),
                                          r.pick(["exist = ok", "opened = flag", "iostat = ios"])), "inquire",
                     removable=True)
        if c == 25:
            kw = r.pick(["backspace", "endfile", "rewind", "flush"])
            arg = r.pick(["10", "lun"])
            if kw != "flush" and r.chance(50):
                return S("%s %s" % (kw, arg), kw, removable=True)
            return S("%s({+unit = }%s%s)" % (kw, arg, r.pick(["", ", iostat = ios"])), kw, removable=True)
        if c == 26:
            return S("wait({+unit = }10)", "wait", removable=True)
        if c == 27 and ctx.get("loop"):
            nm = ctx.get("loop_name")
            kw = r.pick(["cycle", "exit"])
            if nm and r.chance(60):
                return S("%s %s" % (kw, nm), kw, removable=True)
            return S(kw, kw, removable=True)
        if c == 28:
            lab = ctx["new_target"]()
            k = r.n(0, 2)
            if k == 0:
                return S("go{~}to %s" % lab, "goto")
            if k == 1:
                lab2 = ctx["new_target"]()
                return S("go{~}to (%s, %s), %s" % (lab, lab2, self.name(INT_NAMES)), "computed_goto")
            lab2 = ctx["new_target"]()
            return S("if (%s) %s, %s, %s" % (self.expr("num", 1), lab, lab2, lab), "arith_if")
        if c == 29:
            lab = ctx["new_format"]()
            k = r.n(0, 3)
            if k == 0:
                return S("print %s, %s" % (lab, self.io_list()), "print", removable=True)
            if k == 1:
                return S("read(5, %s, iostat = ios, iomsg = msg) %s" % (lab, self.io_list(out=False)), "read", removable=True)
            return S("write(6, %s) %s" % (lab, self.io_list()), "write", removable=True)
        if c == 30:
            k = r.n(0, 3)
            if k == 0:
                return S("inquire(iolength = %s) %s" % (self.name(INT_NAMES), self.io_list(out=False)), "inquire", removable=True)
            if k == 1:
                return S("write(unit = lun, rec = %s, iostat = ios) %s" % (self.int_expr(0), self.io_list()), "write", removable=True)
            if k == 2:
                return S("read(10, *, size = %s, advance = 'no', eor = %s) %s" % (self.name(INT_NAMES), ctx["new_target"](),
                                                                                  self.io_list(out=False)), "read")
            if ctx.get("alt_return"):
                return S("return %s" % r.pick(["1", "2", self.name(INT_NAMES)]), "return", removable=True)
            return S("write(*, fmt = '(a)', advance = 'no') %s" % r.pick(STR_LITS), "write", removable=True)
        return self.assign_stmt()

    # ------------------------------------------------------------- constructs
    def do_term_action(self, ctx):
        """Terminal statement of a non-block DO: any action statement except the branching ones (R838/C824)."""
        banned = ("goto", "computed_goto", "arith_if", "stop", "error_stop", "return", "cycle", "exit", "continue")
        for _ in range(20):
            st = self.simple_exec(ctx)
            if st.kind not in banned and st.label is None and not (st.kind == "if_stmt" and any(
                    b in st.tmpl for b in (" stop", " return", " cycle", " exit", "go to", "goto"))):
                return st
        return self.assign_stmt()

    def cname(self, ctx):
        """Optional construct name (unique among enclosing constructs)."""
        if self.r.chance(25):
            used = ctx.get("cnames", ())
            for nm in CONSTRUCT_NAMES:
                if nm not in used and self.r.chance(60):
                    return nm
        return None

    def body(self, ctx, depth, lo=0):
        r = self.r
        items = []
        for _ in range(r.n(lo, self.o.max_stmts)):
            items.append(self.exec_item(ctx, depth))
        return items

    def exec_item(self, ctx, depth):
        r = self.r
        if depth < self.o.max_depth and r.chance(35):
            b = self.construct(ctx, depth)
            if r.chance(10) and b.opener is not None and b.opener.label is None and "new_label" in ctx:
                b.opener.label = ctx["new_label"]()       # a labelled construct opener, e.g. '30 nm: if (l) then'
            return b
        st = self.simple_exec(ctx)
        if r.chance(8) and st.label is None:
            st.label = ctx["new_label"]()
        return st

    def _sub(self, ctx, **kw):
        c = dict(ctx)
        c.update(kw)
        return c

    def construct(self, ctx, depth):
        r = self.r
        kinds = ["if", "do", "select_case", "do_label", "where", "forall", "associate", "select_type", "do_while",
                 "do_shared", "do_nonblock"]
        if self.o.f08:
            kinds += ["block", "critical", "do_concurrent", "block"]
        k = r.pick(kinds)
        nm = self.cname(ctx)
        sub = self._sub(ctx, cnames=tuple(ctx.get("cnames", ())) + ((nm,) if nm else ()))
        endnm = (" " + nm) if nm else ""
        d1 = depth + 1
        S = Stmt
        if k == "if":
            segs = [(None, self.body(sub, d1))]
            for _ in range(r.n(0, 2)):
                segs.append((S("else{~}if (%s) then%s" % (self.expr("log", 2), endnm if r.chance(50) else ""),
                               "else_if"), self.body(sub, d1)))
            if r.chance(40):
                segs.append((S("else%s" % (endnm if r.chance(50) else ""), "else"), self.body(sub, d1)))
            b = Block("if", S("if (%s) then" % self.expr("log", 2), "if_then", cname=nm),
                      S("end{~}if%s" % endnm, "end_if"), segs)
        elif k in ("do", "do_while", "do_concurrent"):
            v = self.name(INT_NAMES)
            if k == "do":
                c = r.n(0, 3)
                if c == 0:
                    ctl = ""
                else:
                    ctl = " %s = %s, %s" % (v, self.int_expr(1), self.int_expr(1))
                    if c == 3:
                        ctl += ", %s" % r.pick(["2", "-1", "k"])
                f08 = False
            elif k == "do_while":
                ctl = " while (%s)" % self.expr("log", 2)
                f08 = False
            else:
                ctl = " concurrent (%s = 1:%s%s)" % (v, self.small_int(), r.pick(["", ", j = 1:n", ", arr(i) > 0"]))
                f08 = True
                self.f08_used += 1
            lsub = self._sub(sub, loop=True, loop_name=nm)
            b = Block("do", S("do%s" % ctl, "do", cname=nm, f08=f08), S("end{~}do%s" % endnm, "end_do"),
                      [(None, self.body(lsub, d1))])
        elif k == "do_label":
            lab = ctx["new_label"]()
            v = self.name(INT_NAMES)
            lsub = self._sub(sub, loop=True, loop_name=nm)
            opener = S("do %s%s %s = 1, %s" % (lab, r.pick(["", "", ","]), v, self.int_expr(1)), "do_label", cname=nm)
            if r.chance(50) or nm:
                closer = S("end{~}do%s" % endnm, "end_do", label=lab)
            else:
                closer = S("continue", "continue", label=lab)
            b = Block("do_label", opener, closer, [(None, self.body(lsub, d1))])
        elif k == "do_shared":
            # two DO statements sharing one terminal label: modelled as nested blocks where
            # the inner closer is the shared terminal and the outer block has no closer of its own
            lab = ctx["new_label"]()
            v, v2 = "i", "j"
            lsub = self._sub(sub, loop=True, loop_name=None)
            if r.chance(30):
                shared_term = self.do_term_action(lsub)      # non-block form: shared terminal action statement
                shared_term.label = lab
                shared_term.removable = False
            else:
                shared_term = S("continue", "continue", label=lab)
            inner = Block("do_label", S("do %s %s = 1, %s" % (lab, v2, self.small_int()), "do_label"),
                          shared_term, [(None, self.body(lsub, d1 + 1, lo=1))])
            # two to four DO statements share the terminal
            for extra_v in ["k", "n"][:r.pick([0, 0, 1, 2])]:
                pre = [] if self.avoid("no_stmt_between_shared_dos") else (
                    [self.simple_exec(lsub)] if r.chance(20) else [])
                inner = Block("do_shared", S("do %s %s = 1, %s" % (lab, extra_v, self.small_int()), "do_label"), None,
                              [(None, pre + [inner])])
            pre = [] if self.avoid("no_stmt_between_shared_dos") else (
                [self.simple_exec(lsub)] if r.chance(30) else [])
            b = Block("do_shared", S("do %s %s = 1, %s" % (lab, v, self.small_int()), "do_label"), None,
                      [(None, pre + [inner])])
            nm = None
        elif k == "do_nonblock":
            # action-terminated non-block DO: terminal statement is an ordinary labelled statement
            lab = ctx["new_label"]()
            v = self.name(INT_NAMES)
            lsub = self._sub(sub, loop=True, loop_name=None)
            term = self.do_term_action(lsub)
            term.label = lab
            term.removable = False
            b = Block("do_nonblock", S("do %s %s = 1, %s" % (lab, v, self.int_expr(0)), "do_label"), term,
                      [(None, self.body(lsub, d1))])
            nm = None
        elif k == "select_case":
            typ = r.pick(["int", "int", "chr"])
            sel = self.name(INT_NAMES) if typ == "int" else self.name(CHR_NAMES)
            segs = []
            for i in range(r.n(1, 3)):
                if typ == "int":
                    rng = r.pick(["1", "2:3", ":0", "5:", "1, 3", "4:6, 9", "-1"])
                else:
                    rng = r.pick(["'a'", "'b':'d'", '"x", "y"'])
                segs.append((S("case (%s)%s" % (rng, endnm if r.chance(40) else ""), "case"), self.body(sub, d1)))
            if r.chance(50):
                segs.append((S("case default%s" % (endnm if r.chance(40) else ""), "case"), self.body(sub, d1)))
            b = Block("select_case", S("select{~}case (%s)" % sel, "select_case", cname=nm),
                      S("end{~}select%s" % endnm, "end_select"), segs)
        elif k == "select_type":
            segs = []
            for i in range(r.n(1, 3)):
                g = r.pick(["type is (%s)" % self.name(TYPE_NAMES), "class is (%s)" % self.name(TYPE_NAMES),
                            "type is (integer)", "type is (real(kind = 8))", "type is (character(len = *))"])
                segs.append((S("%s%s" % (g, endnm if r.chance(40) else ""), "type_guard"), self.body(sub, d1)))
            if r.chance(40):
                segs.append((S("class default%s" % (endnm if r.chance(40) else ""), "type_guard"),
                             self.body(sub, d1)))
            sel = r.pick(["%s" % self.name(OBJ_NAMES), "q => %s" % self.name(OBJ_NAMES)])
            b = Block("select_type", S("select{~}type (%s)" % sel, "select_type", cname=nm),
                      S("end{~}select%s" % endnm, "end_select_type"), segs)
        elif k == "where":
            arr = self.name(ARR_NAMES)

            def wbody(dd=0):
                out = []
                for _ in range(r.n(0, 3)):
                    if dd < 1 and r.chance(15):
                        out.append(Block("where", S("where (%s /= 0)" % self.name(ARR_NAMES), "where"),
                                         S("end{~}where", "end_where"), [(None, wbody(dd + 1))]))
                    elif r.chance(10):
                        out.append(S("where (%s > 1) %s = 0" % (self.name(ARR_NAMES), self.name(ARR_NAMES)), "where_stmt",
                                     removable=True))
                    else:
                        out.append(S("%s = %s" % (self.name(ARR_NAMES), self.expr("num", 1)), "assign", removable=True))
                return out
            segs = [(None, wbody())]
            if r.chance(40):
                segs.append((S("else{~}where (%s < 0)%s" % (arr, endnm if r.chance(40) else ""), "elsewhere"), wbody()))
            if r.chance(40):
                segs.append((S("else{~}where%s" % (endnm if r.chance(40) else ""), "elsewhere"), wbody()))
            b = Block("where", S("where (%s > %s)" % (arr, self.expr("num", 1)), "where", cname=nm),
                      S("end{~}where%s" % endnm, "end_where"), segs)
        elif k == "forall":
            v = self.name(INT_NAMES)
            out = []
            for _ in range(r.n(0, 3)):
                out.append(S("%s(%s) = %s" % (self.name(ARR_NAMES), v, self.expr("num", 1)), "assign", removable=True))
            b = Block("forall", S("forall (%s = 1:%s)" % (v, self.small_int()), "forall", cname=nm),
                      S("end{~}forall%s" % endnm, "end_forall"), [(None, out)])
        elif k == "associate":
            assoc = ", ".join("%s => %s" % (r.pick(["aa", "bb", "zz"]), self.expr("num", 1)) for _ in range(r.n(1, 2)))
            b = Block("associate", S("associate (%s)" % assoc, "associate", cname=nm),
                      S("end{~}associate%s" % endnm, "end_associate"), [(None, self.body(sub, d1))])
        elif k == "block":
            self.f08_used += 1
            decls = []
            bctx = self._sub(sub, dummies=False, module=False)
            for _ in range(r.n(0, 2)):
                decls.append(self.type_decl(bctx))
            b = Block("block", S("block", "block", cname=nm, f08=True), S("end{~}block%s" % endnm, "end_block"),
                      [(None, decls + self.body(sub, d1))])
        else:  # critical
            self.f08_used += 1
            b = Block("critical", S("critical", "critical", cname=nm, f08=True),
                      S("end{~}critical%s" % endnm, "end_critical"), [(None, self.body(sub, d1))])
        b.named = bool(nm)
        return b

    # ------------------------------------------------------------------ units
    def derived_type(self, ctx):
        r = self.r
        nm = self.name(TYPE_NAMES)
        S = Stmt
        attrs = []
        if r.chance(30):
            attrs.append("extends(%s)" % r.pick(["base_t", "parent"]))
        if r.chance(15):
            attrs.append("abstract")
        if r.chance(15) and ctx.get("module"):
            attrs.append(r.pick(["public", "private"]))
        if r.chance(10):
            attrs.append("bind(c)")
        if attrs:
            opener = "type, %s :: %s" % (", ".join(attrs), nm)
        else:
            opener = "type%s%s" % (r.pick([" :: ", " "]), nm)
        body = []
        if r.chance(12) and "bind(c)" not in attrs:
            # parameterised derived type
            opener = opener + "(kp, np)" if "::" in opener or True else opener
            body.append(S("integer, kind :: kp = %s" % r.pick(["4", "kind(1.0)"]), "type_param"))
            body.append(S("integer, len :: np", "type_param"))
            body.append(S("real(kind = kp) :: pv(np)", "type_decl"))
        elif r.chance(15) and not attrs:
            body.append(S("sequence", "sequence"))
        elif r.chance(15):
            body.append(S("private", "private"))
        for _ in range(r.n(1, 3)):
            c = r.n(0, 5)
            if c <= 2:
                st = self.type_decl({"component": True})
                # components may not carry some attributes
                if any(a in st.tmpl for a in ("save", "target", "parameter", "volatile", "asynchronous",
                                              "codimension", "intent", "optional", "value")):
                    st = S("%s :: %s" % (r.pick(["integer", "real", "real(kind = 8)"]), self.name(COMP_NAMES)),
                           "type_decl")
                body.append(st)
            elif c == 3:
                body.append(S("type(%s), pointer :: %s => null()" % (nm, self.name(COMP_NAMES)), "type_decl"))
            elif c == 4:
                body.append(S("real, dimension(:), allocatable :: %s" % self.name(COMP_NAMES), "type_decl"))
            else:
                body.append(S("procedure(%s), pointer, nopass :: %s" % (self.name(FUN_NAMES), r.pick(["fp", "gp"])),
                              "proc_comp"))
        segs = [(None, body)]
        if r.chance(30):
            tb = []
            if r.chance(25):
                tb.append(S("private", "private"))
            for _ in range(r.n(1, 3)):
                c = r.n(0, 4)
                if c <= 1:
                    tb.append(S("procedure :: %s" % r.pick(["m", "run", "m => impl_m"]), "tb_proc"))
                elif c == 2:
                    tb.append(S("procedure, %s :: %s" % (r.pick(["pass(self)", "nopass", "public", "non_overridable"]),
                                                         r.pick(["pm", "qm => impl_q"])), "tb_proc"))
                elif c == 3:
                    tb.append(S("generic :: %s => m, run" % r.pick(["gen", "operator(+)", "assignment(=)"]), "tb_generic",
                                nofuse=True))
                else:
                    tb.append(S("final :: %s" % r.pick(["fin", "fin, fin2"]), "tb_final"))
            if "abstract" in attrs and r.chance(50):
                tb.append(S("procedure(%s), deferred :: dm" % self.name(FUN_NAMES), "tb_proc"))
            segs.append((S("contains", "contains"), tb))
        return Block("type", S(opener, "type_def"), S("end{~}type%s" % r.pick(["", " " + nm]), "end_type"), segs)

    def enum_def(self):
        r = self.r
        S = Stmt
        body = []
        for _ in range(r.n(1, 3)):
            body.append(S("enumerator %s" % r.pick([":: ea = 1, eb", ":: ec", "{+:: }ed, ee", ":: ef = 2 * 3"]),
                          "enumerator"))
        return Block("enum", S("enum, bind(c)", "enum"), S("end{~}enum", "end_enum"), [(None, body)])

    def interface_block(self, ctx):
        r = self.r
        S = Stmt
        c = r.n(0, 5)
        nofuse = False
        if c == 0:
            spec = ""
        elif c <= 2:
            spec = " " + r.pick(["gen", "swap", "fx"])
        elif c == 3:
            spec = " operator(%s)" % r.pick([".myop.", "+", "==", "//", "/", ".lt."])
            nofuse = True
        elif c == 4:
            spec = r.pick([" assignment(=)", " read(formatted)", " write(unformatted)"])
            nofuse = True
        else:
            spec = None
        body = []
        for _ in range(r.n(1, 2)):
            k = r.n(0, 2)
            if k == 0 and spec:
                if self.o.f08 and r.chance(25):
                    self.f08_used += 1
                    body.append(S("%sprocedure :: %s" % (r.pick(["module ", ""]), r.pick(["p1", "p1, p2"])),
                                  "module_proc", f08=True))
                elif r.chance(30) and not self.avoid("no_bare_procedure_stmt_in_interface"):
                    # R1206: [ MODULE ] PROCEDURE procedure-name-list - the bare form is F2003 too
                    body.append(S("procedure %s" % r.pick(["p1", "p1, p2"]), "module_proc"))
                else:
                    body.append(S("module procedure %s" % r.pick(["p1", "p1, p2"]), "module_proc"))
            else:
                body.append(self.subprogram(self._sub(ctx, interface_body=True), depth=9))
        if spec is None:
            return Block("interface", S("abstract interface", "interface"), S("end{~}interface", "end_interface"),
                         [(None, body)])
        endspec = spec if r.chance(60) else ""
        return Block("interface", S("interface%s" % spec, "interface", nofuse=nofuse),
                     S("end{~}interface%s" % endspec, "end_interface", nofuse=nofuse), [(None, body)])

    def spec_part(self, ctx):
        r = self.r
        items = []
        for _ in range(r.n(0, 2)):
            items.append(self.use_stmt())
        if ctx.get("interface_body") and r.chance(40):
            items.append(Stmt(r.pick(["import", "import :: t1", "import {+:: }t1, tt"]), "import"))
        if r.chance(50):
            items.append(self.implicit_stmt())
        for _ in range(r.n(0, self.o.max_stmts)):
            c = r.n(0, 11)
            if r.chance(3):
                items.append(self.wide_decl())
            elif c <= 4:
                items.append(self.type_decl(ctx))
            elif c <= 7:
                items.append(self.attr_stmt(ctx))
            elif c == 8:
                items.append(self.derived_type(ctx))
            elif c == 9 and not ctx.get("interface_body"):
                items.append(self.interface_block(ctx))
            elif c == 10:
                items.append(self.enum_def())
            else:
                items.append(self.type_decl(ctx))
        return items

    def exec_part(self, ctx, depth=1):
        """Executable part with label bookkeeping: branch targets and FORMATs are emitted."""
        labels = ctx["labels"]
        targets, formats = [], []

        def new_label():
            c = self.r.n(0, 19)
            jump = 10 if c < 13 else 1 if c < 18 else 990 if c == 18 else 9000
            if labels[0] + jump > 99999:
                jump = 1
            labels[0] += jump
            return str(labels[0])

        def new_target():
            if targets and self.r.chance(50):
                return self.r.pick(targets)
            lab = new_label()
            targets.append(lab)
            return lab

        def new_format():
            if formats and self.r.chance(50):
                return self.r.pick(formats)
            lab = new_label()
            formats.append(lab)
            return lab

        c = self._sub(ctx, new_label=new_label, new_target=new_target, new_format=new_format)
        items = []
        for _ in range(self.r.n(0, self.o.max_stmts + 1)):
            items.append(self.exec_item(c, depth))
        for lab in formats:
            items.append(self.format_stmt(lab))
        for lab in targets:
            items.append(Stmt("continue", "continue", label=lab))
        return items

    def subprogram(self, ctx, depth=1):
        r = self.r
        S = Stmt
        is_fun = r.chance(50)
        nm = self.fresh_unit_name() if not ctx.get("interface_body") else r.pick(["ifc_a", "ifc_b", "ifc_c"])
        prefixes = []
        if r.chance(30):
            prefixes = [r.pick(["pure", "elemental", "recursive", "pure elemental"])]
        ndum = r.n(0, 3)
        dummies = []
        for _ in range(ndum):
            d = self.name(NUM_NAMES[:6] + INT_NAMES[:3])
            if d not in dummies:
                dummies.append(d)
        suffix = ""
        if is_fun:
            if r.chance(35):
                prefixes.append(r.pick(["real", "integer", "logical", "double{~}precision", "real(kind = 8)",
                                        "character(len = 10)", "type(t1)"]))
            args = "(%s)" % ", ".join(dummies)
            if r.chance(40):
                suffix = " result(%s)" % r.pick(["res", "rv"])
            if r.chance(15) and not any("elemental" in p for p in prefixes):
                suffix += " bind(c)" if not suffix else " bind(c, name = 'cf')"
            head = "%sfunction %s%s%s" % ("".join(p + " " for p in prefixes), nm, args, suffix)
            kw = "function"
        else:
            if r.chance(15) and not ctx.get("interface_body"):
                dummies.append("*")
            if dummies:
                args = "(%s)" % ", ".join(dummies)
            else:
                args = "{-()}"
            if r.chance(15) and not any("elemental" in p for p in prefixes):
                suffix = " bind(c)" if dummies else ""
                if not dummies and not self.avoid("no_empty_parens_before_bind"):
                    # R1232: the binding spec needs the (empty) parentheses; fparser prints 'SUBROUTINE s BIND(C)'
                    # without them (known finding C02-subroutine-bind-without-parens)
                    args = "()"
                    suffix = r.pick([" bind(c)", " bind(c, name = 'c_s')"])
            head = "%ssubroutine %s%s%s" % ("".join(p + " " for p in prefixes), nm, args, suffix)
            kw = "subroutine"
        sctx = self._sub(ctx, alt_return=("*" in dummies), dummies=bool([d for d in dummies if d != "*"]), module=False, subprogram=True,
                         labels=[0], loop=False, loop_name=None, cnames=())
        spec = self.spec_part(sctx)
        segs = [(None, spec)]
        if not ctx.get("interface_body"):
            ex = self.exec_part(sctx)
            if r.chance(10) and depth <= 1 and not ctx.get("internal"):
                en = r.pick(["ent1", "ent2"])
                if is_fun:
                    # R1235: ENTRY entry-name [ ( [ dummy-arg-list ] ) [ suffix ] ]
                    form = r.pick(["(x)", "(x)", "() result(rv2)", "(x, y) result(rv2)", "() bind(c, name = 'c_e')",
                                   "(x) result(rv2) bind(c)", "() result(rv2) bind(c, name = 'c_e2')"])
                else:
                    form = r.pick(["{+()}", "(x)", "(x, *)", "() bind(c)", "(x) bind(c, name = 'c_e')"])
                ex.insert(r.n(0, len(ex)), S("entry %s%s" % (en, form), "entry"))
            segs = [(None, spec + ex)]
            if depth <= 1 and not ctx.get("internal") and r.chance(20):
                inner = [self.subprogram(self._sub(ctx, internal=True), depth=depth + 1)
                         for _ in range(r.n(1, 2))]
                segs.append((S("contains", "contains"), inner))
        endc = r.n(0, 2)
        if endc == 0 and not ctx.get("internal") and not ctx.get("in_module") and not ctx.get("interface_body"):
            end = "end"
        elif endc <= 1:
            end = "end{~}%s" % kw
        else:
            end = "end{~}%s %s" % (kw, nm)
        b = Block(kw, S(head, kw), S(end, "end_" + kw), segs, unit=True)
        b.scope_name = nm
        return b

    def main_program(self, with_stmt=True):
        r = self.r
        S = Stmt
        nm = self.fresh_unit_name()
        ctx = {"labels": [0], "cnames": (), "main": True}
        spec = self.spec_part(ctx)
        ex = self.exec_part(ctx)
        segs = [(None, spec + ex)]
        if r.chance(20):
            inner = [self.subprogram(self._sub(ctx, internal=True, main=False), depth=2) for _ in range(r.n(1, 2))]
            segs.append((S("contains", "contains"), inner))
        if with_stmt:
            end = r.pick(["end", "end{~}program", "end{~}program %s" % nm])
            b = Block("program", S("program %s" % nm, "program"), S(end, "end_program"), segs, unit=True)
        else:
            end = r.pick(["end", "end{~}program"])
            b = Block("program0", None, S(end, "end_program"), segs, unit=True)
        b.scope_name = nm
        return b

    def module(self):
        r = self.r
        S = Stmt
        nm = self.fresh_unit_name(MOD_NAMES)
        ctx = {"labels": [0], "cnames": (), "module": True}
        spec = self.spec_part(ctx)
        segs = [(None, spec)]
        if r.chance(50):
            inner = [self.subprogram(self._sub(ctx, in_module=True, module=False), depth=1) for _ in range(r.n(1, 2))]
            segs.append((S("contains", "contains"), inner))
        end = r.pick(["end{~}module", "end{~}module %s" % nm, "end"])
        b = Block("module", S("module %s" % nm, "module"), S(end, "end_module"), segs, unit=True)
        b.scope_name = nm
        return b

    def submodule(self):
        r = self.r
        S = Stmt
        nm = self.fresh_unit_name(["sm1", "sm2", "sub_m"])
        parent = r.pick(["m1", "m1:sm0", "mod_a"])
        ctx = {"labels": [0], "cnames": (), "module": True}
        segs = [(None, self.spec_part(ctx))]
        if r.chance(50):
            inner = [self.subprogram(self._sub(ctx, in_module=True, module=False), depth=1)]
            segs.append((S("contains", "contains"), inner))
        end = r.pick(["end{~}submodule", "end{~}submodule %s" % nm, "end"])
        self.f08_used += 1
        b = Block("submodule", S("submodule (%s) %s" % (parent, nm), "submodule", f08=True), S(end, "end_submodule"),
                  segs, unit=True)
        b.scope_name = nm
        return b

    def block_data(self):
        r = self.r
        S = Stmt
        nm = r.pick([None, self.fresh_unit_name(["bd1", "bdat"])])
        body = [S("common /blk/ x, y", "attr"), S("data x /1.0/", "attr")]
        if r.chance(50):
            body.insert(0, S("real {+:: }x, y", "type_decl"))
        head = "block{~}data" + (" " + nm if nm else "")
        end = r.pick(["end", "end{~}block{~}data" + (" " + nm if nm and r.chance(50) else "")])
        b = Block("block_data", S(head, "block_data"), S(end, "end_block_data"), [(None, body)], unit=True)
        b.scope_name = nm
        return b

    def program(self):
        """A list of program units."""
        r = self.r
        units = []
        n = r.n(1, self.o.max_units)
        kinds = ["main", "module", "subprogram", "subprogram", "module", "block_data"]
        if self.o.f08:
            kinds.append("submodule")
        have_main = False
        for i in range(n):
            k = r.pick(kinds)
            if k == "main":
                if have_main:
                    k = "subprogram"
                else:
                    have_main = True
            if k == "main":
                # a main program without PROGRAM statement may sit anywhere among the units
                units.append(self.main_program(not r.chance(35)))
            elif k == "module":
                units.append(self.module())
            elif k == "subprogram":
                units.append(self.subprogram({"labels": [0], "cnames": ()}, depth=1))
            elif k == "submodule":
                units.append(self.submodule())
            else:
                units.append(self.block_data())
        return units


# ---------------------------------------------------------------------------

def finalize(units, rnd=None, variants=False):
    """Resolve templates to (src, canon) text and number the statements."""
    r = R(rnd) if (variants and rnd is not None) else None
    flat = flatten(units)
    for i, (st, _) in enumerate(flat):
        st.uid = i
        st.src, st.canon = resolve(st.tmpl, (lambda: r.chance(50)) if r else None)
    return flat


def stmt_text(st, which="src"):
    t = st.src if which == "src" else st.canon
    s = ""
    if st.label:
        s += st.label + " "
    if st.cname:
        s += st.cname + ": "
    return s + t


def canonical_source(units_or_flat, which="src", indent=False):
    flat = units_or_flat if (units_or_flat and isinstance(units_or_flat[0], tuple)) else flatten(units_or_flat)
    lines = []
    for st, d in flat:
        lines.append(("  " * d if indent else "") + stmt_text(st, which))
    return "\n".join(lines) + "\n"


def uses_f08(flat):
    return any(st.f08 for st, _ in flat)


EXTRA_NAMES = ["dp", "ck", "ik", "lk", "lun", "ios", "fname", "nl", "blk", "res", "rv", "key", "opt", "aa", "bb",
               "zz", "q", "jj", "kk", "pp", "pq", "fp", "gp", "run", "impl_m", "impl_q", "pm", "qm", "dm", "gen",
               "fin", "fin2", "base_t", "parent", "rem1", "rem2", "orig", "other_mod", "iso_c_binding", "sm0",
               "sm1", "sm2", "sub_m", "bd1", "bdat", "ifc_a", "ifc_b", "ifc_c", "ent1", "ent2", "p1", "p2", "swap",
               "ea", "eb", "ec", "ed", "ee", "ef", "self", "m", "kp", "np", "pv", "pi", "rv2"] + ["w%d" % i for i in range(16)]
ALL_NAMES = set(n.lower() for pool in (NUM_NAMES, INT_NAMES, LOG_NAMES, CHR_NAMES, ARR_NAMES, FUN_NAMES, SUB_NAMES,
                                       OBJ_NAMES, COMP_NAMES, TYPE_NAMES, MOD_NAMES, UNIT_NAMES, CONSTRUCT_NAMES,
                                       EXTRA_NAMES) for n in pool)
