"""C07: a syntax error is reported at the offending statement's last physical line."""
import re
from vf import gen, layout, progs
from vf.env import guarded_parse
from vf.runner import Result

ID = "C07"
BUDGET = {"quick": 240, "thorough": 4000}
GARBAGE = ["@@@", "?? garbage ??", "= = 2", ")( +"]
RULE = ("Programs from G in a free-form layout with one statement per logical line (comments, continuations, "
        "labels, shared-label DOs, several units; 40% with cpp conditional regions (#if/#else/#endif) around statement "
        "ranges, single directives and unresolved INCLUDE lines at statement boundaries). For EVERY statement s (exhaustive per program) and garbage g in "
        "{'@@@','?? garbage ??','= = 2',')( +'} (quick: 2 of them), optionally continued over 2-3 lines: "
        "parse(P[s:=g]) raises FortranSyntaxError whose 'at line N' is the last physical line of the replaced "
        "statement and whose '>>>' text is that line. evaluations counts programs; positions_checked counts "
        "(statement, garbage) pairs. Non-trivial = program has a replaced statement at depth >= 2, outside the "
        "first unit, or a continued garbage.")
MIN_NONTRIVIAL = 0.5
FOREIGN_EXCLUSIONS = ("no_defined_binop_before_dotted",)
ASSUMPTIONS = ["the four garbage strings match no Fortran statement (each is checked to be rejected on its own)"]

_positions = [0]


def shard_extra():
    return {"positions_checked": _positions[0]}


def build(rnd, tier, flags):
    units, flat, g = progs.make_program(rnd, flags, max_units=3, max_stmts=4)
    r = gen.R(rnd)
    meta = progs.meta_of(flat)
    std = "f2008" if (meta["f08"] or g.o.f08) else r.pick(["f2003", "f2008"])
    lo = layout.FreeOpts(trail_blanks=r.pick([0, 0, 25]), big_indent=r.pick([0, 0, 10]), cont=r.pick([0, 10, 20]), lead_amp=50, lit_break=r.pick([0, 30]), comments=r.pick([0, 20]),
                         trailing=r.pick([0, 10]), blank_lines=r.pick([0, 10]), cont_comments=r.pick([0, 30]),
                         indent=True, names=gen.ALL_NAMES, excl=set(flags))
    lay = layout.free_layout(flat, rnd, lo)
    stmts = []
    first_unit_end = None
    for st, d in flat:
        if first_unit_end is None and st.role == "close" and st.block.unit and d == 0:
            first_unit_end = st.uid
        sp = lay.span[st.uid]
        stmts.append([sp[0], sp[1], d, st.kind, 0 if first_unit_end is None or st.uid <= first_unit_end else 1])
    lines = list(lay.lines)
    extra = 0
    if r.chance(40) and stmts:
        # lines that are not statements, at statement boundaries: cpp conditional regions around statement ranges
        # (with #else / #elif), single directives, unresolved INCLUDE lines
        ins = []
        for _ in range(r.n(1, 2)):
            a = r.n(0, len(stmts) - 1)
            b = r.n(a, min(len(stmts) - 1, a + 4))
            ins.append((stmts[a][0], r.pick(["#ifdef DEBUG", "#if defined(X) && Y > 1", "#ifndef NDEBUG"])))
            if b > a and r.chance(40):
                m = r.n(a + 1, b)
                ins.append((stmts[m][0], r.pick(["#else", "#elif Z"])))
            ins.append((stmts[b][1] + 1, "#endif"))
        for _ in range(r.n(0, 2)):
            a = r.n(0, len(stmts) - 1)
            ins.append((stmts[a][0], r.pick(["#define X 1", "#undef X", "include 'not_there.inc'", "#include \"x.h\"",
                                             "#line 7 \"f.F90\""])))
        ins.sort(key=lambda t: t[0])          # stable: same position keeps drawing order
        extra = len(ins)
        for pos, text in reversed(ins):
            lines[pos - 1:pos - 1] = [text]
        for srec in stmts:
            sh = sum(1 for pos, _ in ins if pos <= srec[0])
            srec[0] += sh
            srec[1] += sh
    meta["extra_lines"] = extra
    ngar = 2 if tier == "quick" else 4
    gi = r.n(0, len(GARBAGE) - 1)
    garb = [GARBAGE[(gi + k) % len(GARBAGE)] for k in range(ngar)]
    case = {"lines": lines, "stmts": stmts, "garbage": garb, "cont": r.n(0, 2), "std": std,
            "ignore_comments": r.chance(50), "process_directives": r.chance(30), "meta": meta}
    return case, progs.excluded_counts(g, lay)


def _garbage_lines(g, k):
    if k == 0:
        return [g]
    parts = g.split(" ")
    if len(parts) < 2:
        parts = [g[:1], g[1:]]
    out = []
    for i, p in enumerate(parts[:k + 1]):
        rest = p if i < min(k, len(parts) - 1) else " ".join(parts[i:])
        out.append((" " if i else "") + rest + (" &" if i < min(k, len(parts) - 1) else ""))
        if i == min(k, len(parts) - 1):
            break
    return out


def evaluate(case):
    lines = case["lines"]
    std, ign = case["std"], case["ignore_comments"]
    kw = {"process_directives": True} if case.get("process_directives") else {}
    labels = ["std=" + std, "cont=%d" % case["cont"]] + (["process_directives"] if kw else [])
    if case.get("meta", {}).get("extra_lines"):
        labels.append("cpp-or-include-lines")
    o = guarded_parse("\n".join(lines) + "\n", std=std, ignore_comments=ign, **kw)
    if o.kind != "tree":
        return Result(True, None, False, labels, precondition_failed=True)
    nontrivial = any(s[2] >= 2 or s[4] for s in case["stmts"]) or case["cont"] > 0
    for gtext in case["garbage"]:
        glines = _garbage_lines(gtext, case["cont"])
        for first, last, depth, kind, later_unit in case["stmts"]:
            _positions[0] += 1
            new = lines[:first - 1] + glines + lines[last:]
            expect_n = first + len(glines) - 1
            expect_l = glines[-1].rstrip()
            o2 = guarded_parse("\n".join(new) + "\n", std=std, ignore_comments=ign, **kw)
            if o2.kind == "tree":
                return Result(False, "accepted:%s" % kind, nontrivial, labels,
                              {"replaced": lines[first - 1:last], "garbage": glines, "line": first})
            if o2.kind != "syntax":
                return Result(False, "not-syntax-error:%s:%s" % (o2.kind, kind), nontrivial, labels,
                              {"error": o2.text, "replaced": lines[first - 1:last], "garbage": glines})
            n, q = progs.syntax_error_line(o2.text)
            if n != expect_n or (q or "").rstrip() != expect_l:
                delta = "none" if n is None else ("before" if n < expect_n else "after" if n > expect_n else "text")
                return Result(False, "wrong-line:%s:%s" % (kind, delta), nontrivial, labels,
                              {"error": o2.text, "expected_line": expect_n, "expected_text": expect_l,
                               "replaced": lines[first - 1:last], "garbage": glines,
                               "context": new[max(0, expect_n - 6):expect_n + 3]})
    return Result(True, None, nontrivial, labels)
