"""C08: ill-nested constructs and unbalanced parentheses are rejected."""
from vf import gen, layout, progs, lexer
from vf.env import guarded_parse
from vf.runner import Result

ID = "C08"
BUDGET = {"quick": 320, "thorough": 5000}
RULE = ("Programs from G in canonical layout (half of them with comment, cpp and unresolved INCLUDE lines between the "
        "statements; reader options drawn per case) x EVERY applicable single structural edit from a whitelist that provably "
        "leaves an invalid program: delete the opener or END of an IF/DO(END DO-terminated)/SELECT CASE/SELECT TYPE/"
        "WHERE/FORALL/ASSOCIATE/BLOCK/CRITICAL construct, TYPE/INTERFACE/ENUM definition or subprogram; duplicate such "
        "an opener; insert a surplus construct END; change the construct/unit name on an END; add a name to the END "
        "of an unnamed construct; delete or add one parenthesis outside character context in any statement. Oracle: "
        "parse raises (FortranSyntaxError; SystemExit is tallied as rejected). evaluations counts programs, "
        "edits_checked counts edits. Non-trivial = an edited statement at depth >= 2 or on a named/labelled construct.")
MIN_NONTRIVIAL = 0.5
FOREIGN_EXCLUSIONS = ("no_defined_binop_before_dotted",)
ASSUMPTIONS = ["each whitelisted edit yields a program that is invalid by the standard's syntax rules (argued per "
               "edit kind in DESIGN.md 5 C08)"]

CONSTRUCTS = ("if", "do", "do_label", "select_case", "select_type", "where", "forall", "associate", "block", "critical")
DEFS = ("type", "interface", "enum")
SUBPROGS = ("subroutine", "function")
END_TEXT = {"if": "end if", "do": "end do", "do_label": "end do", "select_case": "end select", "select_type": "end select",
            "where": "end where", "forall": "end forall", "associate": "end associate", "block": "end block",
            "critical": "end critical", "type": "end type", "interface": "end interface", "enum": "end enum"}
_edits = [0]
_exits = [0]


def shard_extra():
    return {"edits_checked": _edits[0], "rejected_by_SystemExit": _exits[0]}


def _paren_edits(r, text, maxn=2):
    """Single-parenthesis deletions/insertions outside character context."""
    toks = lexer.lex_line(text)
    pos = []
    i = 0
    spans = []
    # recover token offsets
    for k, t in toks:
        j = text.index(t, i)
        spans.append((k, t, j))
        i = j + len(t)
    parens = [(k, t, j) for k, t, j in spans if t in ("(", ")") and k == "OP"]
    out = []
    for _ in range(maxn):
        c = r.n(0, 2)
        if c <= 1 and parens:
            k, t, j = r.pick(parens)
            out.append(text[:j] + text[j + 1:])
        else:
            k, t, j = r.pick(spans)
            at = j if r.chance(50) else j + len(t)
            out.append(text[:at] + r.pick(["(", ")"]) + text[at:])
    return out


def continued(r, text):
    """The same statement split over 2-3 free-form lines at blanks outside character context."""
    cuts = []
    q = None
    for i, ch in enumerate(text):
        if q:
            if ch == q:
                q = None
        elif ch in "'\"":
            q = ch
        elif ch == " " and 0 < i < len(text) - 1 and text[:i].strip() and not text[:i].strip().isdigit():
            cuts.append(i)
    if not cuts:
        return text
    picks = sorted({r.pick(cuts) for _ in range(r.n(1, 2))})
    out, prev = [], 0
    for c in picks:
        out.append(text[prev:c] + " &")
        prev = c
    out.append(("   &" if r.chance(50) else "   ") + text[prev:])
    return "\n".join(out)


def build(rnd, tier, flags):
    units, flat, g = progs.make_program(rnd, flags, max_units=2, max_stmts=4)
    r = gen.R(rnd)
    meta = progs.meta_of(flat)
    std = "f2008" if (meta["f08"] or g.o.f08) else r.pick(["f2003", "f2008"])
    # the statements, one per line; in half of the programs comment, cpp and unresolved INCLUDE lines sit between them
    decorate = r.chance(50)
    lines, idx = [], {}
    for st, _ in flat:
        if decorate and r.chance(18):
            for _k in range(r.n(1, 2)):
                lines.append(r.pick(["! a comment", "!> doc comment for what follows", "#ifdef X", "#endif", "#define N 1",
                                     "include 'not_there.inc'", "#include \"x.h\"", "#else"]))
        idx[st.uid] = len(lines)
        lines.append(gen.stmt_text(st))
    meta["decorated"] = decorate
    flat_at = {idx[st.uid]: (st, d) for st, d in flat}
    depth = {st.uid: d for st, d in flat}
    edits = []   # [kind, op, line index, text or None, depth, named]
    excl = {}
    fl = set(flags)

    def skip(flag):
        if flag in fl:
            excl[flag] = excl.get(flag, 0) + 1
            return True
        return False

    def walk_blocks(items, d, in_label_do):
        for it in items:
            if isinstance(it, gen.Block):
                yield it, d, in_label_do
                inner = in_label_do or it.kind in ("do_label", "do_shared", "do_nonblock")
                for _, body in it.segs:
                    yield from walk_blocks(body, d + 1, inner)

    for b, d, in_label_do in walk_blocks(units, 0, False):
        kind = b.kind
        named = bool(b.opener is not None and (b.opener.cname or b.opener.label))
        if kind in CONSTRUCTS or kind in DEFS or (kind in SUBPROGS and d >= 1):
            if b.opener is None or b.closer is None:
                continue
            if kind == "do_label" and b.closer.kind != "end_do":
                continue
            oi, ci = idx[b.opener.uid], idx[b.closer.uid]
            stray_end_do = kind in ("do", "do_label") and in_label_do
            if kind in SUBPROGS and skip("no_del_open_subprogram"):
                pass
            elif stray_end_do and skip("no_stray_end_do_in_label_do"):
                pass
            else:
                edits.append(["del-open:" + kind, "del", oi, None, d, named])
            if (kind in SUBPROGS and d >= 1 and any(u.kind == "program0" for u in units)
                    and skip("no_del_open_subprogram")):
                pass    # same recorded finding: with a PROGRAM-less main program later in the file, its statements are
                #         absorbed by the host after the CONTAINS part (part order is not enforced)
            else:
                edits.append(["del-end:" + kind, "del", ci, None, d, named])
            if kind != "do_label":
                edits.append(["dup-open:" + kind, "ins", oi, lines[oi], d, named])
            if kind in END_TEXT and not (stray_end_do and skip("no_stray_end_do_in_label_do")):
                edits.append(["surplus-end:" + kind, "ins", ci, END_TEXT[kind], d, named])
            # END name edits
            ctext = b.closer.canon
            if kind in CONSTRUCTS:
                if kind == "do_label" and skip("no_end_do_name_edit_on_label_do"):
                    pass
                elif b.opener.cname:
                    new = gen.stmt_text(b.closer).replace(" " + b.opener.cname, " zz9wrong")
                    if new != lines[ci]:
                        edits.append(["rename-end:" + kind, "rep", ci, new, d, True])
                else:
                    edits.append(["name-on-unnamed-end:" + kind, "rep", ci, lines[ci] + " zz9x", d, named])
            elif kind in SUBPROGS and b.scope_name and ctext.endswith(" " + b.scope_name):
                edits.append(["rename-end:" + kind, "rep", ci, lines[ci][:-len(b.scope_name)] + "zz9wrong", d, True])
        elif b.unit and b.closer is not None and b.scope_name and b.closer.canon.endswith(" " + b.scope_name):
            ci = idx[b.closer.uid]
            edits.append(["rename-end:" + kind, "rep", ci, lines[ci][:-len(b.scope_name)] + "zz9wrong", d, True])
    # parentheses
    cand = [idx[st.uid] for st, _ in flat if "(" in st.src or r.chance(10)]
    for i in cand[: (12 if tier == "quick" else 40)]:
        st, d = flat_at[i]
        lax = st.kind in ("end_interface", "interface", "tb_generic")
        if lax and skip("no_paren_edit_use_procdecl_endinterface"):
            continue
        for new in _paren_edits(r, st.src, 2):
            pre = lines[i][:len(lines[i]) - len(st.src)]
            tag = "+intent" if (st.kind in ("type_decl", "attr") and ("intent(" in st.src)) else ""
            text = pre + new
            if r.chance(40):
                text = continued(r, text)      # the edited statement written over continuation lines
            edits.append(["paren:" + st.kind + tag, "rep", i, text, d, bool(st.label or st.cname)])
    case = {"lines": lines, "edits": edits, "std": std, "meta": meta,
            "reader_opts": r.pick([{}, {}, {"ignore_comments": False}, {"ignore_comments": False, "process_directives": True},
                                   {"process_directives": True}])}
    ex = progs.excluded_counts(g)
    ex.update(excl)
    return case, ex


def apply_edit(lines, e):
    _, op, i, text = e[0], e[1], e[2], e[3]
    if op == "del":
        return lines[:i] + lines[i + 1:]
    if op == "ins":
        return lines[:i + 1] + [text] + lines[i + 1:]
    return lines[:i] + [text] + lines[i + 1:]


def evaluate(case):
    lines, std = case["lines"], case["std"]
    opts = dict(case.get("reader_opts") or {})
    labels = ["std=" + std] + ["opt:%s=%s" % kv for kv in sorted(opts.items())]
    if case.get("meta", {}).get("decorated"):
        labels.append("comment-cpp-include-lines-between-statements")
    o = guarded_parse("\n".join(lines) + "\n", std=std, **opts)
    if o.kind != "tree":
        return Result(True, None, False, labels, precondition_failed=True)
    nontrivial = any(e[4] >= 2 or e[5] for e in case["edits"])
    for e in case["edits"]:
        _edits[0] += 1
        new = apply_edit(lines, e)
        o2 = guarded_parse("\n".join(new) + "\n", std=std, want_str=True, **opts)
        if o2.kind == "exit":
            _exits[0] += 1
            continue
        if o2.kind == "syntax":
            continue
        if o2.kind == "tree":
            i = e[2]
            tag = "+parts-out-of-order" if _parts_out_of_order(o2.tree) else ""
            return Result(False, "accepted:" + e[0] + tag, nontrivial, labels,
                          {"edit": e[:4], "original_line": lines[i], "context": new[max(0, i - 4):i + 5],
                           "printed": (o2.text or "")[:1500]})
        # other exceptions are C06's business; tallied as rejected here but labelled
        labels.append("other-exception")
    return Result(True, None, nontrivial, labels)


def _parts_out_of_order(tree):
    """Does some program unit of the accepted tree hold a specification or execution part AFTER its CONTAINS part?"""
    from vf.treeform import iter_nodes
    for n in iter_nodes(tree):
        kids = [type(c).__name__ for c in getattr(n, "children", []) or []]
        if "Internal_Subprogram_Part" in kids or "Module_Subprogram_Part" in kids:
            k = max(kids.index(x) for x in ("Internal_Subprogram_Part", "Module_Subprogram_Part") if x in kids)
            if any(c in ("Specification_Part", "Execution_Part", "Implicit_Part") for c in kids[k + 1:]):
                return True
    return False


def kf_match(entry, case, res):
    import re
    pat = entry.get("signature", {}).get("bucket_regex")
    return bool(pat and re.fullmatch(pat, res.bucket or ""))
