"""C11: comments kept exactly once and in place, or ignored without effect; directives only change node type."""
import re
from vf import gen, layout, progs
from vf.env import guarded_parse, walk, F03, BlockBase
from vf.runner import Result
from vf.compare import tree_diff
from vf.treeform import iter_nodes, class_names

ID = "C11"
BUDGET = {"quick": 2000, "thorough": 30000}
RULE = ("Programs from G x comment placements by the free-form engine (before/after/between units, first/last in "
        "blocks, after openers/ENDs, trailing on any physical line, between continuation lines, inside a broken "
        "literal's continuation, with quotes/!/&/; and a share of directive-shaped texts), with ';' joins and "
        "continuations. Oracle (a) kept: the non-empty Comment/Directive nodes in walk order == K in source "
        "order, text unchanged, each in the slot 'after all statements whose logical line starts at or before "
        "the comment's line'; the comment lines of str(tree) give the same list; (b) ignored: tree == tree of "
        "the canonical source; (c) process_directives: same tree with Directive for Comment exactly on "
        "full-line directive-shaped comments. Non-trivial = >= 3 comments and one between continuation lines or "
        "at depth >= 2.")
MIN_NONTRIVIAL = 0.2
FOREIGN_EXCLUSIONS = ("no_defined_binop_before_dotted",)
ASSUMPTIONS = ["canonical source parses (C01)"]
_DIRECTIVE = re.compile(r"(\!\$[a-z]|c\$[a-z]|\*\$[a-z]|\!dir\$|cdir\$|\!gcc\$)", re.I)


def build(rnd, tier, flags):
    units, flat, g = progs.make_program(rnd, flags, max_units=3)
    r = gen.R(rnd)
    meta = progs.meta_of(flat)
    std = "f2008" if (meta["f08"] or g.o.f08) else r.pick(["f2003", "f2008"])
    lo = layout.FreeOpts(eol_variants=True, trail_blanks=r.pick([0, 0, 25]), big_indent=r.pick([0, 0, 10]), cont=r.pick([0, 10, 20]), lead_amp=r.pick([0, 50, 100]), lit_break=r.pick([0, 30]),
                         comments=r.pick([15, 30, 50]), trailing=r.pick([0, 15, 30]), blank_lines=r.pick([0, 10]),
                         cont_comments=r.pick([0, 40]), semis=r.pick([0, 15, 70]), indent=True, directives=r.pick([0, 30]),
                         names=gen.ALL_NAMES, excl=set(flags))
    lay = layout.free_layout(flat, rnd, lo)
    firsts = sorted(lay.span[st.uid][0] for st, _ in flat)
    depth_at = {}
    for st, d in flat:
        for ln in range(lay.span[st.uid][0], lay.span[st.uid][1] + 1):
            depth_at[ln] = max(depth_at.get(ln, 0), d)
    comments = []
    for ln, txt, kind in sorted(lay.comments):
        slot = sum(1 for f in firsts if f <= ln)
        comments.append([ln, txt.rstrip(), kind, slot])
    meta["features"] = sorted(lay.features)
    meta["deep_comment"] = any(depth_at.get(c[0], 0) >= 2 for c in comments)
    case = {"canonical": gen.canonical_source(flat), "laid": lay.text, "std": std, "comments": comments,
            "n_stmts": len(flat), "meta": meta}
    return case, progs.excluded_counts(g, lay)


def _comment_slots(tree):
    """[(text, slot)] for non-empty Comment/Directive nodes, slot = statements seen before."""
    out = []
    nstmt = 0
    for n in iter_nodes(tree):
        if isinstance(n, (F03.Comment, F03.Directive)):
            t = str(n).rstrip()
            if t.strip():
                out.append((t.strip(), nstmt, type(n).__name__))
        elif not isinstance(n, BlockBase) and isinstance(n.parent, BlockBase):
            nstmt += 1
    return out


def evaluate(case):
    meta = case.get("meta", {})
    feats = set(meta.get("features", ()))
    K = [c for c in case["comments"] if c[1].strip()]
    nontrivial = len(K) >= 3 and bool(feats & {"comment_in_cont", "comment_in_lit_cont"} or meta.get("deep_comment"))
    labels = ["f:" + f for f in feats]
    std = case["std"]
    o0 = guarded_parse(case["canonical"], std=std)
    if o0.kind != "tree":
        return Result(True, None, False, labels, precondition_failed=True)
    # (b) ignored
    ob = guarded_parse(case["laid"], std=std, ignore_comments=True)
    if ob.kind != "tree":
        return Result(False, "ignored:reject:%s" % ob.kind, nontrivial, labels, {"error": ob.text})
    d = tree_diff(o0.tree, ob.tree)
    if d:
        return Result(False, "ignored:tree:" + d[0], nontrivial, labels, {})
    # (a) kept
    oa = guarded_parse(case["laid"], std=std, ignore_comments=False, want_str=True)
    if oa.kind != "tree":
        ln, q = progs.syntax_error_line(oa.text)
        return Result(False, "kept:reject:%s:%s" % (oa.kind, progs.first_word(q or "")), nontrivial, labels,
                      {"error": oa.text, "context": case["laid"].split("\n")[max(0, (ln or 1) - 6):(ln or 1) + 1]})
    got = _comment_slots(oa.tree)
    want = [(c[1].strip(), c[3]) for c in K]
    if [g[0] for g in got] != [w[0] for w in want]:
        gs, ws = [g[0] for g in got], [w[0] for w in want]
        what = "lost" if len(gs) < len(ws) else "duplicated" if len(gs) > len(ws) else "reordered-or-changed"
        i = next((k for k, (a, b) in enumerate(zip(gs, ws)) if a != b), min(len(gs), len(ws)))
        kindc = K[i][2] if i < len(K) else "?"
        return Result(False, "kept:comment-%s:%s" % (what, kindc), nontrivial, labels,
                      {"index": i, "expected": ws[max(0, i - 2):i + 3], "got": gs[max(0, i - 2):i + 3]})
    for (t, slot, _), (wt, wslot), c in zip(got, want, K):
        if slot != wslot:
            return Result(False, "kept:comment-misplaced:%s" % c[2], nontrivial, labels,
                          {"comment": t, "line": c[0], "slot": slot, "expected_slot": wslot,
                           "context": case["laid"].split("\n")[max(0, c[0] - 4):c[0] + 2]})
    printed = [ln.strip() for ln in oa.text.split("\n") if ln.strip().startswith("!")]
    if printed != [w[0] for w in want]:
        return Result(False, "kept:printed-comments-differ", nontrivial, labels, {"n_printed": len(printed), "n_expected": len(want)})
    # (c) directives
    oc = guarded_parse(case["laid"], std=std, ignore_comments=False, process_directives=True)
    if oc.kind != "tree":
        return Result(False, "directives:reject:%s" % oc.kind, nontrivial, labels, {"error": oc.text})
    d = tree_diff(oa.tree, oc.tree, class_map={"Directive": "Comment"})
    if d:
        return Result(False, "directives:tree:" + d[0], nontrivial, labels, {})
    gotc = _comment_slots(oc.tree)
    for (t, _, cls), c in zip(gotc, K):
        should = bool(_DIRECTIVE.match(c[1].strip())) and c[2] == "full"
        if (cls == "Directive") != should:
            return Result(False, "directives:wrong-node-type:%s" % ("missed" if should else "spurious"), nontrivial, labels,
                          {"comment": t, "kind": c[2], "got": cls})
    if any(_DIRECTIVE.match(c[1].strip()) for c in K):
        labels.append("has-directive")
    return Result(True, None, nontrivial, labels, classes=class_names(oa.tree))
