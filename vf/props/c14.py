"""C14: preprocessor directive lines are kept as nodes and do not disturb the Fortran."""
import re
from vf import gen, layout, progs
from vf.env import guarded_parse, BlockBase
from vf.runner import Result
from vf.treeform import canon, iter_nodes, diff_bucket, class_names
from vf.normform import normal_form, flatten_groupings

ID = "C14"
BUDGET = {"quick": 2000, "thorough": 30000}
RULE = ("Programs from G (free-form one-statement-per-line layout or, 30%, a wrapped fixed-form layout whose format is "
        "auto-detected; optionally with comment lines) x insertion of cpp "
        "lines at statement boundaries at any depth, before/after units and next to comments: #if/#ifdef/#ifndef/#elif/"
        "#else/#endif, #include \"f\"/<f>, #define (object-, function-like, variadic, empty), #undef, #line, #error, "
        "#warning, the null directive, line markers, blanks around '#', backslash continuations over 2-3 lines. "
        "Oracle: N(tree with Cpp nodes removed) == N(tree(P)); the Cpp nodes in walk order match D in order with the "
        "expected class, slot (number of statements before) and normalised text; each appears once in str(tree). "
        "Non-trivial = >= 2 directives and one at depth >= 2 or between specification and execution part.")
MIN_NONTRIVIAL = 0.2
FOREIGN_EXCLUSIONS = ("no_defined_binop_before_dotted",)
ASSUMPTIONS = ["N merges/drops only grouping nodes (Specification_Part, Implicit_Part, Execution_Part, ...)"]

KINDS = {
    "if": "Cpp_If_Stmt", "ifdef": "Cpp_If_Stmt", "ifndef": "Cpp_If_Stmt", "elif": "Cpp_Elif_Stmt",
    "else": "Cpp_Else_Stmt", "endif": "Cpp_Endif_Stmt", "include": "Cpp_Include_Stmt", "define": "Cpp_Macro_Stmt",
    "undef": "Cpp_Undef_Stmt", "line": "Cpp_Line_Stmt", "error": "Cpp_Error_Stmt", "warning": "Cpp_Warning_Stmt",
    "null": "Cpp_Null_Stmt", "marker": "Cpp_Linemarker_Stmt",
}
CPP_CLASSES = set(KINDS.values())


def gen_directive(r):
    """(kind, physical lines, normalised expected text)"""
    k = r.pick(list(KINDS))
    pre = r.pick(["", "", " ", "  "])
    mid = r.pick(["", "", " ", "  "])
    cont = r.chance(25)

    def bs(a, b):
        """a <backslash-newline> b, the second part possibly split again (up to 4 physical lines)"""
        tail = lambda: r.pick(["", "", " ", "   "])      # blanks after the backslash are tolerated by the reader  # noqa: E731
        out = [a + "\\" + tail()]
        words = b.split(" ")
        extra = r.n(0, 2)
        while extra and len(words) > 1:
            k = r.n(1, len(words) - 1)
            out.append(" ".join(words[:k]) + " \\" + tail())
            words = words[k:]
            extra -= 1
        out.append(" ".join(words))
        return out
    sep = r.pick([" ", " ", "  ", "\t"])
    if r.chance(18):
        # the next preprocessing token glued to the directive name, trailing C comments, bare forms
        glued = {
            "if": [("if!defined(FOO)", "#if !defined(FOO)"), ("if(X > 1)", "#if (X > 1)"), ("if-1", "#if -1")],
            "elif": [("elif(X)", "#elif (X)"), ("elif!Y", "#elif !Y")],
            "else": [("else/* c */", "#else/* c */"), ("else // c", "#else // c")],
            "endif": [("endif//x", "#endif//x"), ("endif /* X */", "#endif /* X */")],
            "include": [('include"f.h"', '#include "f.h"'), ("include<f.h>", '#include "f.h"')],
            "error": [('error"msg"', '#error "msg"'), ("error", "#error")],
            "warning": [('warning"w"', '#warning "w"'), ("warning", "#warning")],
            "define": [("define X(a,b)a+b", "#define X(a,b) a+b"), ("define\tX\t1", "#define X 1"), ("define X (a)", "#define X (a)")],
            "marker": [('12 "f" 1 3 4', '# 12 "f" 1 3 4')],
        }.get(k)
        if glued:
            txt, expect = r.pick(glued)
            if k == "marker":
                return k, ["# " + txt], expect
            return k, [pre + "#" + mid + txt], expect
    if k == "if":
        a, b = r.pick([("defined(X) &&", " Y > 1"), ("X ==", " 2"), ("!defined(FOO)", " || BAR")])
        body = a + b
        lines = bs(pre + "#" + mid + "if " + a, b) if cont else [pre + "#" + mid + "if " + body]
        return k, lines, "#if " + body
    if k in ("ifdef", "ifndef", "undef"):
        m = r.pick(["FOO", "X", "_BAR1"])
        return k, [pre + "#" + mid + k + sep + m], "#%s %s" % (k, m)
    if k == "elif":
        c = r.pick(["Z", "defined(W)", "A > B"])
        return k, [pre + "#" + mid + "elif" + sep + c], "#elif " + c
    if k in ("else", "endif"):
        return k, [pre + "#" + mid + k], "#" + k
    if k == "include":
        f = r.pick(["defs.h", "sub/x.inc", "a_b.h"])
        if r.chance(50):
            return k, [pre + "#" + mid + 'include "%s"' % f], '#include "%s"' % f
        return k, [pre + "#" + mid + "include <%s>" % f], '#include "%s"' % f
    if k == "define":
        c = r.n(0, 3)
        if c == 0:
            return k, [pre + "#" + mid + "define EMPTY"], "#define EMPTY"
        if c == 1:
            return k, [pre + "#" + mid + "define X 1"], "#define X 1"
        if c == 2:
            if cont:
                return k, bs(pre + "#" + mid + "define F(a,b) a + ", "b * 2"), "#define F(a,b) a + b * 2"
            return k, [pre + "#" + mid + "define F(a,b) a + b * 2"], "#define F(a,b) a + b * 2"
        return k, [pre + "#" + mid + "define V(...) __VA_ARGS__"], "#define V(...) __VA_ARGS__"
    if k == "line":
        return k, [pre + "#" + mid + 'line 12 "file.f90"'], '#line 12 "file.f90"'
    if k in ("error", "warning"):
        msg = r.pick(["some message here", "don't do this", "x = 1; y"])
        if cont:
            return k, bs(pre + "#" + mid + k + " " + msg + " ", "more"), "#%s %s more" % (k, msg)
        return k, [pre + "#" + mid + k + " " + msg], "#%s %s" % (k, msg)
    if k == "null":
        return k, [pre + "#"], "#"
    return k, ['# 12 "file.f90" 1'], '# 12 "file.f90" 1'


def norm_cpp(text):
    t = re.sub(r"\s+", " ", text.strip())
    t = re.sub(r"^# (?=[a-z])", "#", t)
    return t


def build(rnd, tier, flags):
    units, flat, g = progs.make_program(rnd, flags, max_units=2)
    r = gen.R(rnd)
    meta = progs.meta_of(flat)
    std = "f2008" if (meta["f08"] or g.o.f08) else r.pick(["f2003", "f2008"])
    keep = r.chance(40)
    fixed = r.chance(30)
    if fixed:
        # fixed-form programs (format auto-detected): directives start in column one there
        fo = layout.FixedOpts(comments=20 if keep else 0, cont_comments=0, wrap=r.pick([72, 60, 40]), names=gen.ALL_NAMES,
                              excl=set(flags) | {"no_blank_at_col72"})
        lay = layout.fixed_layout(flat, rnd, fo)
        meta["fixed_form"] = True
    else:
        lo = layout.FreeOpts(comments=20 if keep else 0, indent=r.chance(50), names=gen.ALL_NAMES, excl=set(flags))
        lay = layout.free_layout(flat, rnd, lo)
    lines = list(lay.lines)
    n = len(flat)
    nd = r.n(1, 5)
    slots = sorted(r.n(0, n) for _ in range(nd))      # insert before statement index s (n = after the last)
    firsts = [lay.span[st.uid][0] for st, _ in flat]
    kinds = [st.kind for st, _ in flat]
    depth = [d for _, d in flat]
    directives = []
    ins = []
    for s in slots:
        k, dl, expect = gen_directive(r)
        if fixed:
            dl = [dl[0].lstrip()] + dl[1:]
        at = (firsts[s] - 1) if s < n else len(lines)
        ins.append((at, dl))
        between = s < n and s > 0 and kinds[s - 1] in ("type_decl", "attr", "use", "implicit") and kinds[s] not in (
            "type_decl", "attr", "use", "implicit", "format", "end_subroutine", "end_function", "end_program")
        directives.append({"kind": k, "slot": s, "text": expect, "depth": depth[s] if s < n else 0,
                           "spec_exec_boundary": bool(between), "next_kind": kinds[s] if s < n else None,
                           "prev_kind": kinds[s - 1] if s > 0 else None})
    for at, dl in sorted(reversed(ins), key=lambda x: -x[0]):
        lines[at:at] = dl
    eol = r.pick(["\n", "\n", "\n", "\r\n"])        # CR LF line ends: also after the backslash of a continued directive
    if eol != "\n":
        meta["crlf"] = True
    case = {"base": eol.join(lay.lines) + eol, "with": eol.join(lines) + eol, "std": std, "keep_comments": keep,
            "directives": directives, "meta": meta}
    return case, progs.excluded_counts(g, lay)


def _cpp_nodes(tree):
    out = []
    nstmt = 0
    for n in iter_nodes(tree):
        cn = type(n).__name__
        if cn in CPP_CLASSES:
            out.append((cn, nstmt, str(n)))
        elif cn in ("Comment", "Directive"):
            continue
        elif not isinstance(n, BlockBase) and isinstance(n.parent, BlockBase):
            nstmt += 1
    return out


def evaluate(case):
    D = case["directives"]
    nontrivial = len(D) >= 2 and any(d["depth"] >= 2 or d["spec_exec_boundary"] for d in D)
    labels = ["cpp:" + d["kind"] for d in D] + (["fixed-form"] if case.get("meta", {}).get("fixed_form") else [])
    std, keep = case["std"], case["keep_comments"]
    o0 = guarded_parse(case["base"], std=std, ignore_comments=not keep)
    if o0.kind != "tree":
        return Result(True, None, False, labels, precondition_failed=True)
    o1 = guarded_parse(case["with"], std=std, ignore_comments=not keep, want_str=True)
    ctx = "+".join(sorted({"%s|%s" % (d["prev_kind"], d["next_kind"]) for d in D}))
    if o1.kind != "tree":
        ln, q = progs.syntax_error_line(o1.text)
        # which directive is the culprit?  try each alone
        culprit = None
        return Result(False, "reject:%s:%s" % (o1.kind, _culprit(case, std, keep)), nontrivial, labels,
                      {"error": o1.text, "directives": D})
    a = normal_form(canon(o0.tree))
    b = normal_form(canon(o1.tree, drop=CPP_CLASSES))
    if a != b:
        fa, fb = flatten_groupings(a), flatten_groupings(b)
        tag = "" if fa != fb else ":only-implicit-part-wrapping"
        return Result(False, "fortran-changed%s:%s:%s" % (tag, diff_bucket(a, b), _culprit(case, std, keep, tree=a)),
                      nontrivial, labels, {"directives": D})
    got = _cpp_nodes(o1.tree)
    if len(got) != len(D):
        return Result(False, "directive-count:%d!=%d" % (len(got), len(D)), nontrivial, labels, {"got": got, "directives": D})
    for (cn, slot, text), d in zip(got, D):
        if cn != KINDS[d["kind"]]:
            return Result(False, "directive-class:%s" % d["kind"], nontrivial, labels, {"got": cn, "directive": d})
        if slot != d["slot"]:
            return Result(False, "directive-misplaced:%s:%s|%s" % (d["kind"], d["prev_kind"], d["next_kind"]), nontrivial,
                          labels, {"got_slot": slot, "directive": d})
        if norm_cpp(text) != norm_cpp(d["text"]):
            return Result(False, "directive-payload:%s" % d["kind"], nontrivial, labels, {"got": text, "expected": d["text"]})
    printed = [norm_cpp(ln) for ln in o1.text.split("\n") if ln.strip().startswith("#")]
    if printed != [norm_cpp(d["text"]) for d in D]:
        return Result(False, "printed-directives-differ", nontrivial, labels, {"printed": printed, "directives": D})
    return Result(True, None, nontrivial, labels, classes=class_names(o1.tree))


def _culprit(case, std, keep, tree=None):
    """Statement-kind context of the first single directive that reproduces a failure on its own."""
    base = case["base"].split("\n")
    withl = case["with"].split("\n")
    # recover single insertions by diffing: directives lines are those starting with '#' (or continuation of one)
    D = case["directives"]
    return "+".join(sorted({"%s|%s" % (d["prev_kind"], d["next_kind"]) for d in D}))[:80]
