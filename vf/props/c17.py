"""C17: the Fortran 2008 parser accepts everything the Fortran 2003 parser accepts; 2003 rejects 2008-only constructs."""
import re
from vf import gen, progs
from vf.env import guarded_parse
from vf.runner import Result
from vf.treeform import class_names

ID = "C17"
BUDGET = {"quick": 2400, "thorough": 40000}
RULE = ("Domain A: F2003-class programs from G (a share of them with genuine references to ERF/GAMMA/SHIFTL/SHIFTR/SHIFTA "
        "with an admissible argument count, a share with F2008 keyword spellings - concurrent, block, critical, error, mold ... - "
        "used as plain names in assignments, DO/IF/SELECT headers, calls and I/O): parse08 succeeds and str(parse08(P)) == str(parse03(P)) exactly, or - when "
        "one of the five names occurs - equal case-insensitively outside character literals. Domain B: programs from G "
        "with >= 1 F2008-only production (SUBMODULE, CODIMENSION, BLOCK, CRITICAL, DO CONCURRENT, ERROR STOP, CONTIGUOUS, "
        "ALLOCATE(MOLD=), OPEN(NEWUNIT=), unlimited-repeat format item, [MODULE] PROCEDURE :: in an interface block): "
        "parse03 raises FortranSyntaxError and parse08 succeeds. Non-trivial = A: tree has a node class the 2008 registry "
        "overrides; B: the 2008-only production sits at nesting depth >= 2.")
MIN_NONTRIVIAL = 0.3
FOREIGN_EXCLUSIONS = ("no_defined_binop_before_dotted",)
ASSUMPTIONS = ["each catalogue member is F2008-only (checked in isolation by the exhaustive part)"]
F08_INTR = {"erf": "erf(x)", "gamma": "gamma(y)", "shiftl": "shiftl(i, 2)", "shiftr": "shiftr(j, 1)", "shifta": "shifta(k, 3)"}
OVERRIDDEN = {"Type_Declaration_Stmt", "If_Stmt", "Open_Stmt", "Allocate_Stmt", "Label_Do_Stmt", "Nonlabel_Do_Stmt",
              "Format_Item", "Action_Stmt", "Data_Component_Def_Stmt", "Procedure_Stmt", "Stop_Stmt",
              "Block_Nonlabel_Do_Construct", "Block_Label_Do_Construct"}

# F2008 keywords (and names that merely start with one) used as ordinary names in F2003-class statements
KW_NAMES = ["concurrent", "concurrent_idx", "block", "critical", "contiguous", "codimension", "submodule", "error",
            "mold", "newunit", "impure", "errorstop", "endblock", "block_data", "stop_code", "lock", "sync", "image"]
KW_TEMPLATES = [
    ["{a} = {b} + 1"], ["{a}(i) = {b}"], ["call {a}({b})"], ["if ({a} > 0) {b} = 1"], ["print *, {a}, {b}"],
    ["do {a} = 1, {b}", "x = {a}", "end do"], ["do 77 {a} = 1, n", "77 continue"], ["do 78, {a} = 1, {b}, 2", "78 continue"],
    ["do while ({a} > 0)", "{a} = {a} - 1", "end do"], ["allocate({a}(3), stat = {b})"],
    ["open(unit = {a}, file = 'f')"], ["read({a}, *) {b}"], ["if ({a} == {b}) then", "stop", "end if"],
    ["{a} % {b} = 1"], ["select case ({a})", "case (1)", "{b} = 2", "end select"],
]

CATALOGUE = [
    ("submodule", "submodule (m) sm\nend submodule sm\n"),
    ("codimension", "subroutine s\nreal, codimension[*] :: x\nend\n"),
    ("block", "subroutine s\nblock\nx = 1\nend block\nend\n"),
    ("critical", "subroutine s\ncritical\nx = 1\nend critical\nend\n"),
    ("do_concurrent", "subroutine s\ndo concurrent (i = 1:3)\nx = 1\nend do\nend\n"),
    ("do_concurrent_label", "subroutine s\ndo 10 concurrent (i = 1:3)\nx = 1\n10 continue\nend\n"),
    ("error_stop", "subroutine s\nerror stop\nend\n"),
    ("error_stop_code", "subroutine s\nerror stop 1\nend\n"),
    ("error_stop_in_if", "subroutine s\nif (l) error stop 'bad'\nend\n"),
    ("contiguous", "subroutine s\nreal, contiguous, dimension(:), pointer :: x\nend\n"),
    ("contiguous_component", "subroutine s\ntype t\nreal, contiguous, pointer :: c(:)\nend type\nend\n"),
    ("allocate_mold", "subroutine s\nallocate(a, mold = b)\nend\n"),
    ("open_newunit", "subroutine s\nopen(newunit = lun, file = 'f')\nend\n"),
    ("unlimited_format", "subroutine s\n10 format(*(i2, 1x))\nend\n"),
    ("procedure_colons", "module m\ninterface g\nprocedure :: p1\nend interface\nend module\n"),
    ("module_procedure_colons", "module m\ninterface g\nmodule procedure :: p1\nend interface\nend module\n"),
]


def exhaustive(tier, flags):
    for name, src in CATALOGUE:
        yield {"src": src, "domain": "B", "meta": {"catalogue": name, "depth": 1, "f08_kinds": [name]}}


def build(rnd, tier, flags):
    r = gen.R(rnd)
    want_b = r.chance(40)
    units, flat, g = progs.make_program(rnd, flags, f08=want_b)
    meta = progs.meta_of(flat)
    src_lines = [gen.stmt_text(st) for st, _ in flat]
    f08_stmts = [(st.kind, d) for st, d in flat if st.f08]
    domain = "B" if f08_stmts else "A"
    if domain == "A" and r.chance(35):
        # genuine references to F2008-only intrinsics inside the first executable-capable unit
        names = [r.pick(list(F08_INTR)) for _ in range(r.n(1, 2))]
        for i, (st, d) in enumerate(flat):
            if st.kind in ("assign", "call", "print", "continue") and d >= 1:
                for nm in names:
                    src_lines.insert(i, "xx = %s" % F08_INTR[nm])
                meta["f08_intrinsics"] = names
                break
    if domain == "A" and r.chance(40):
        # F2008 keyword spellings as plain names, directly in the execution part of a program unit
        for i, (st, d) in enumerate(flat):
            if st.kind in ("assign", "call", "print", "continue") and d == 1 and not st.label:
                new = []
                for _ in range(r.n(1, 3)):
                    a, b = r.pick(KW_NAMES), r.pick(KW_NAMES)
                    new += [ln.format(a=a, b=b) for ln in r.pick(KW_TEMPLATES)]
                j = src_lines.index(gen.stmt_text(st)) if src_lines.count(gen.stmt_text(st)) == 1 else None
                if j is not None:
                    src_lines[j:j] = new
                    meta["kw_names"] = True
                break
    meta["f08_kinds"] = sorted({k for k, _ in f08_stmts})
    meta["f08_depth"] = max([d for _, d in f08_stmts] + [0])
    return {"src": "\n".join(src_lines) + "\n", "domain": domain, "meta": meta}, progs.excluded_counts(g)


def _fold(text):
    out = []
    for part in re.split(r"('(?:[^']|'')*'|\"(?:[^\"]|\"\")*\")", text):
        out.append(part if part[:1] in "'\"" else part.lower())
    return "".join(out)


def evaluate(case):
    meta = case.get("meta", {})
    dom = case["domain"]
    labels = ["domain=" + dom] + ["f08:" + k for k in meta.get("f08_kinds", [])]
    if meta.get("kw_names"):
        labels.append("keyword-spelled-names")
    o8 = guarded_parse(case["src"], std="f2008", want_str=True)
    o3 = guarded_parse(case["src"], std="f2003", want_str=True)
    if dom == "A":
        if o3.kind != "tree":
            return Result(True, None, False, labels, precondition_failed=True)
        classes = class_names(o3.tree)
        nontrivial = bool(classes & OVERRIDDEN)
        if o8.kind != "tree":
            ln, q = progs.syntax_error_line(o8.text)
            return Result(False, "f2008-rejects:%s:%s" % (o8.kind, progs.first_word(q or "")), nontrivial, labels,
                          {"error": o8.text})
        uses_new = bool(meta.get("f08_intrinsics"))
        if uses_new:
            labels.append("f08-intrinsic-ref")
            if _fold(o8.text) != _fold(o3.text):
                return Result(False, "text-differs-beyond-case", nontrivial, labels, _first_line_diff(o3.text, o8.text))
            for nm in meta["f08_intrinsics"]:
                if nm.upper() + "(" not in o8.text:
                    return Result(False, "f08-intrinsic-not-recognised:" + nm, nontrivial, labels, {})
        elif o8.text != o3.text:
            d = _first_line_diff(o3.text, o8.text)
            tag = ""
            if d.get("f2003", "").strip() == "MODULE " + d.get("f2008", "").strip() and d["f2008"].strip().startswith("PROCEDURE "):
                tag = ":module-inserted-before-procedure"
            return Result(False, "text-differs" + tag, nontrivial, labels, d)
        return Result(True, None, nontrivial, labels, classes=classes)
    # domain B
    nontrivial = meta.get("f08_depth", meta.get("depth", 0)) >= 2 or bool(meta.get("catalogue"))
    kinds = "+".join(meta.get("f08_kinds", []))[:60]
    if o8.kind != "tree":
        ln, q = progs.syntax_error_line(o8.text)
        return Result(False, "f2008-rejects:%s:%s" % (o8.kind, progs.first_word(q or "")), nontrivial, labels, {"error": o8.text})
    if o3.kind == "tree":
        return Result(False, "f2003-accepts:" + kinds, nontrivial, labels, {"printed": (o3.text or "")[:1500]})
    if o3.kind != "syntax":
        return Result(False, "f2003-fails-otherwise:%s" % o3.kind, nontrivial, labels, {"error": o3.text})
    return Result(True, None, nontrivial, labels, classes=class_names(o8.tree))


def _first_line_diff(a, b):
    for x, y in zip(a.split("\n"), b.split("\n")):
        if x != y:
            return {"f2003": x, "f2008": y}
    return {"len_f2003": len(a), "len_f2008": len(b)}


def kf_match(entry, case, res):
    pat = entry.get("signature", {}).get("bucket_regex")
    return bool(pat and re.fullmatch(pat, res.bucket or ""))
