"""C01 round-trip fixpoint: parse(P) exists; parse(str(T)) ~ T; str(parse(str(T))) == str(T)."""
from vf import gen, layout, progs
from vf.env import guarded_parse
from vf.runner import Result
from vf.treeform import canon, diff_bucket, renumber_blocks, norm_text, class_names

ID = "C01"
BUDGET = {"quick": 2400, "thorough": 40000}
RULE = ("Programs drawn from generator G (nested units, spec/exec constructs, labelled and named constructs, "
        "expressions, I/O, FORMAT, F2008 extras; half of them in the optional spellings the printer normalises) x std x ignore_comments (comments inserted by the free-form "
        "engine when kept). Oracle: parse accepts; str(T) re-parses; canonical trees equal; second print "
        "identical (modulo trailing blank lines, BLOCK numbering). Non-trivial = nesting depth >= 2 or a "
        "statement with label and construct name; distinct by hash of the case.")
MIN_NONTRIVIAL = 0.3
ASSUMPTIONS = ["generator G only emits standard-conforming programs (its soundness is what this check owns)",
               "canonical tree form compares class names, child order and leaf strings"]


def build(rnd, tier, flags):
    r = gen.R(rnd)
    # half of the programs use the optional spellings of G's templates ('call s()', 'endif', 'integer i', ...):
    # the printer normalises them, so the first print differs from the source and the second parse sees new text
    variants = r.chance(50)
    units, flat, g = progs.make_program(rnd, flags, variants=variants)
    meta = progs.meta_of(flat)
    meta["variants"] = variants
    std = "f2008" if (meta["f08"] or g.o.f08) else r.pick(["f2003", "f2008"])
    keep = r.chance(40)
    if keep:
        lay = layout.free_layout(flat, rnd, progs.comment_only_opts(gen.ALL_NAMES))
        src = lay.text
        meta["n_comments"] = len(lay.comments)
    else:
        src = gen.canonical_source(flat, indent=True)
    case = {"src": src, "std": std, "ignore_comments": not keep, "meta": meta,
            "process_directives": False}   # not one of C01's configurations: a trailing directive-like comment is
    # printed on its own line and (correctly) becomes a Directive when that text is parsed again
    return case, progs.excluded_counts(g)


def evaluate(case):
    src, std, ign = case["src"], case["std"], case["ignore_comments"]
    meta = case.get("meta", {})
    nontrivial = meta.get("depth", 0) >= 2 or meta.get("labelled_and_named", 0) > 0
    labels = ["std=" + std, "comments_kept" if not ign else "comments_dropped"]
    if meta.get("f08"):
        labels.append("uses_f2008")
    if meta.get("n_units", 0) > 1:
        labels.append("multi_unit")
    if meta.get("variants"):
        labels.append("optional-spellings")
    kw = {"process_directives": True} if case.get("process_directives") else {}
    if kw:
        labels.append("process_directives")
    o = guarded_parse(src, std=std, ignore_comments=ign, want_str=True, **kw)
    if o.kind != "tree" or o.tree is None:
        ln, q = progs.syntax_error_line(o.text)
        return Result(False, "reject:%s:%s" % (o.kind if o.kind != "syntax" else "syntax", progs.first_word(q or "") or o.where),
                      nontrivial, labels, {"stage": "parse", "error": o.text})
    s1 = o.text
    c1 = canon(o.tree)
    classes = class_names(o.tree)
    o2 = guarded_parse(s1, std=std, ignore_comments=ign, want_str=True, **kw)
    if o2.kind != "tree" or o2.tree is None:
        ln, q = progs.syntax_error_line(o2.text)
        return Result(False, "reparse-reject:%s:%s" % (o2.kind, progs.first_word(q or "") or o2.where), nontrivial, labels,
                      {"stage": "reparse", "error": o2.text, "printed": s1}, classes=classes)
    c2 = canon(o2.tree)
    if c1 != c2:
        return Result(False, "tree-diff:" + diff_bucket(c1, c2), nontrivial, labels,
                      {"stage": "tree", "printed": s1}, classes=classes)
    a, b = renumber_blocks(norm_text(s1)), renumber_blocks(norm_text(o2.text))
    if a != b:
        la, lb = a.split("\n"), b.split("\n")
        w = ""
        for x, y in zip(la, lb):
            if x != y:
                w = progs.first_word(x)
                break
        return Result(False, "text-diff:" + w, nontrivial, labels, {"stage": "text", "first": s1, "second": o2.text},
                      classes=classes)
    return Result(True, None, nontrivial, labels, classes=classes)

# shapes owned by findings of other properties (see DESIGN 2.5): excluded by construction here
FOREIGN_EXCLUSIONS = ("no_defined_binop_before_dotted",)
