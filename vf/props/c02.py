"""C02 token-for-token content preservation (independent lexer on regenerated text)."""
import re
from vf import gen, layout, progs, lexer
from vf.env import guarded_parse
from vf.runner import Result
from vf.treeform import class_names

ID = "C02"
BUDGET = {"quick": 2400, "thorough": 40000}
RULE = ("Programs from G with source variants (omitted '::', positional kind/len/unit, fused keywords, empty "
        "dummy parentheses, optional FORMAT commas) laid out in free form (continuations, literal breaks, ';', "
        "case). Oracle: per statement, lex(str(parse(L(P)))) == lex(expected canonical content) with an "
        "independent lossless lexer; keywords/intrinsics/exponent letters case-insensitive, names, literals, "
        "labels, construct names exact; statement count and order exact. Non-trivial = literal with embedded "
        "quote/!/&/; or >=2 units or a source variant used or a continued literal.")
MIN_NONTRIVIAL = 0.3
FOREIGN_EXCLUSIONS = ("no_defined_binop_before_dotted",)
ASSUMPTIONS = ["the lexer is lossless (checked on every line: joined tokens == text without blanks)",
               "expected canonical content comes from the generator's templates, not from fparser"]

CASEFOLD_KINDS = ("format", "implicit")   # edit descriptors / letter ranges are not names
_NUMSPLIT = re.compile(r"^([0-9.]*(?:[EeDd][+-]?\d+)?)(_.*)?$")


def norm_tok(kind, text, fmt=False):
    if kind == "STR":
        return text
    if fmt:
        return text.lower()
    if kind == "WORD":
        return text if text.lower() in gen.ALL_NAMES else text.lower()
    if kind == "NUM":
        m = _NUMSPLIT.match(text)
        if m:
            return m.group(1).lower() + (m.group(2) or "")
        return text
    if kind == "DOT":
        return text.lower()
    if kind == "BOZ":
        return text.lower()        # R412-R414: the letters of a hex constant are digits, not text (printed in upper case)
    return text


_PAIRS = {("else", "where"), ("else", "if"), ("in", "out"), ("go", "to"), ("double", "precision"),
          ("select", "case"), ("select", "type"), ("block", "data"), ("endblock", "data")}
_END_WORDS = {"do", "if", "select", "where", "forall", "associate", "type", "interface", "enum", "program", "module",
              "function", "subroutine", "block", "critical", "submodule", "blockdata", "file"}


def norm_line(toks, fmt=False):
    """Normalised token texts.  Documented canonicalisations are neutralised in BOTH directions:
    '::' outside parentheses is dropped (optional separator), '::' directly after '(' or ',' inside
    parentheses is two colons (empty subscript bounds), compound keywords are fused."""
    out = []
    depth = 0
    prev = None
    for k, t in toks:
        if k == "COMMENT":
            continue
        if t in ("(", "["):
            depth += 1
        elif t in (")", "]"):
            depth -= 1
        if t == "::":
            if depth == 0:
                prev = t
                continue
            if prev in ("(", ","):
                out.extend([":", ":"])
                prev = t
                continue
        n = norm_tok(k, t, fmt)
        if k == "WORD" and out:
            a, b = out[-1].lower(), t.lower()
            if (a, b) in _PAIRS or (a == "end" and b in _END_WORDS):
                out[-1] = a + b
                prev = t
                continue
        out.append(n)
        prev = t
    return out


def expected_lines(flat):
    out = []
    for st, _ in flat:
        text = gen.stmt_text(st, "canon")
        out.append((norm_line(lexer.lex_line(text), st.kind in CASEFOLD_KINDS), st.kind))
    return out


def build(rnd, tier, flags):
    units, flat, g = progs.make_program(rnd, flags, variants=True)
    r = gen.R(rnd)
    meta = progs.meta_of(flat)
    std = "f2008" if (meta["f08"] or g.o.f08) else r.pick(["f2003", "f2008"])
    lo = layout.FreeOpts(cont=r.pick([0, 8, 15]), lit_break=r.pick([0, 30]), semis=r.pick([0, 15, 70]), indent=True,
                         kwcase=r.chance(50), blanks=r.chance(50), cont_comments=20, comments=10, trailing=10,
                         names=gen.ALL_NAMES, excl=set(flags))
    lay = layout.free_layout(flat, rnd, lo)
    exp = expected_lines(flat)
    srcs = [st.src for st, _ in flat]
    meta["variant_stmts"] = sum(1 for st, _ in flat if st.src != st.canon)
    meta["tricky_literal"] = any(re.search(r"'[^']*[!&;\"][^']*'|\"[^\"]*[!&;'][^\"]*\"|''|\"\"", s) for s in srcs)
    meta["features"] = sorted(lay.features)
    case = {"src": lay.text, "std": std, "expected": [e for e, _ in exp], "kinds": [k for _, k in exp], "meta": meta,
            "second_parse": r.chance(40)}
    return case, progs.excluded_counts(g, lay)


def evaluate(case):
    meta = case.get("meta", {})
    feats = set(meta.get("features", ()))
    nontrivial = bool(meta.get("tricky_literal") or meta.get("n_units", 0) >= 2 or meta.get("variant_stmts")
                      or "lit_break" in feats)
    labels = []
    for k in ("tricky_literal", "variant_stmts"):
        if meta.get(k):
            labels.append(k)
    if meta.get("n_units", 0) >= 2:
        labels.append("multi_unit")
    labels += ["layout:" + f for f in feats]
    if case.get("second_parse"):
        # the property holds for every parse, not only for the first one of a text in a process: the tokens are
        # taken from a second parse of the same source (line-level caches in the reader must not leak)
        labels.append("second-parse-of-same-text")
        guarded_parse(case["src"], std=case["std"], ignore_comments=True)
    o = guarded_parse(case["src"], std=case["std"], ignore_comments=True, want_str=True)
    if o.kind != "tree" or o.tree is None:
        ln, q = progs.syntax_error_line(o.text)
        return Result(False, "reject:%s:%s" % (o.kind, progs.first_word(q or "") or o.where), nontrivial, labels,
                      {"error": o.text}, precondition_failed=False)
    try:
        got = [norm_line(l) for l in lexer.lex_text(o.text)]
    except lexer.LexError as e:
        return Result(False, "unlexable-output", nontrivial, labels, {"error": str(e), "printed": o.text})
    exp = case["expected"]
    kinds = case["kinds"]
    classes = class_names(o.tree)
    for i, e in enumerate(exp):
        if i >= len(got):
            return Result(False, "missing-statement:" + kinds[i], nontrivial, labels,
                          {"index": i, "expected": e, "printed": o.text}, classes=classes)
        g = got[i]
        if kinds[i] in CASEFOLD_KINDS:
            g = [t.lower() if not t[:1] in "'\"" else t for t in g]
        if g != e:
            # classify
            if sorted(g) == sorted(e):
                what = "reordered"
            elif len(g) < len(e):
                what = "dropped"
            elif len(g) > len(e):
                what = "invented"
            else:
                what = "changed"
            j = next((k for k, (a, b) in enumerate(zip(g, e)) if a != b), min(len(g), len(e)))
            tk = e[j] if j < len(e) else (g[j] if j < len(g) else "")
            tkind = "str" if tk[:1] in "'\"" else ("num" if tk[:1].isdigit() or tk[:1] == "." else
                                                  ("word" if tk[:1].isalpha() else "op"))
            return Result(False, "token-%s:%s:%s" % (what, kinds[i], tkind), nontrivial, labels,
                          {"index": i, "expected": e, "got": g, "printed_line": o.text.split("\n")[i] if i < len(o.text.split("\n")) else None},
                          classes=classes)
    if len(got) > len(exp):
        return Result(False, "extra-statement", nontrivial, labels, {"extra": got[len(exp)], "printed": o.text},
                      classes=classes)
    return Result(True, None, nontrivial, labels, classes=classes)


def simple_case(stmts, std="f2003"):
    """Hand-written case: stmts = [(source text, expected canonical text, kind)]."""
    return {"src": "\n".join(a for a, _, _ in stmts) + "\n", "std": std,
            "expected": [norm_line(lexer.lex_line(b), k in CASEFOLD_KINDS) for _, b, k in stmts],
            "kinds": [k for _, _, k in stmts], "meta": {"variant_stmts": 1}}


def kf_match(entry, case, res):
    m = entry.get("signature", {}).get("matcher")
    d = res.detail or {}
    if m == "blank_common":
        e, g = d.get("expected"), d.get("got")
        return bool(e and g and e[0] == "common" and g == ["common", "//"] + e[1:])
    if m == "sub_bind_parens":
        e, g = d.get("expected"), d.get("got")
        return bool(e and g and "subroutine" in e and "bind" in e and [t for t in e if t not in ("(", ")")] == [t for t in g if t not in ("(", ")")]
                    and len(e) == len(g) + 2)
    if m == "module_inserted_before_procedure":
        e, g = d.get("expected"), d.get("got")
        return bool(e and g and e[:1] == ["procedure"] and g == ["module"] + e)
    if m == "signed_kp":
        return (res.bucket or "").startswith("reject:syntax:format") and bool(
            re.search(r"[-+]\s*\d+\s*p\s*\d*\s*(?:[fdg]|e[ns]?)\s*\d", d.get("error", ""), re.I))
    return False
