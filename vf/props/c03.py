"""C03 precedence and associativity: fullparen(parse(render(E))) == fullparen(E)."""
import itertools
from vf import gen, exprs as X
from vf.env import (ParserFactory, FortranStringReader, F03, two_utils, walk, guarded_parse, NoMatchError,
                    FortranSyntaxError)
from vf.runner import Result

ID = "C03"
BUDGET = {"quick": 4000, "thorough": 60000}
BIN_OPS = ["**", "*", "/", "+", "-", "//", "==", "/=", "<", "<=", ">", ">=", ".eq.", ".ne.", ".lt.", ".le.", ".gt.",
           ".ge.", ".and.", ".or.", ".eqv.", ".neqv.", ".myop."]
UN_OPS = ["+", "-", ".not.", ".inv."]
BIN_REPS = ["**", "*", "/", "+", "-", "//", "==", ".lt.", ".and.", ".or.", ".eqv.", ".neqv.", ".myop."]
ATOMS = ["a", "b2", "x_1", "1", "2.5", "1.0e-3", "2.d+4", "3_8", "arr(i)", "a2(-i, j + 1)", "f(x, -y)", "obj%v",
         "p(2)%w(k)", ".true.", ".false.", "'a+b'", '"x.and.y"', "(1.0, -2.0)", "[1, 2]", "(/ 3, 4 /)", "sin(x)",
         "max(a, b, c)", "6.02E23", "z1", "1e3", "str_(1:2)", "'it''s'"]
RULE = ("Exhaustive: every operator tree with <= 2 (quick) / <= 3 (thorough) operator nodes over 23 binary and 4 "
        "unary operators (quick adds 3-operator trees over one representative per precedence level), operands "
        "rotated through a pool of 27 primaries, rendered with minimal parentheses per R701-R723 with and "
        "without blanks. Random: trees to depth 6 with redundant parentheses, inside Expr() and inside "
        "assignment / IF / actual-argument / subscript contexts of full programs and in 32 further statement "
        "contexts (I/O items and units, DO / FORALL / ALLOCATE / array bounds, WHERE / IF-THEN / ELSE-IF / DO-WHILE "
        "conditions, SELECT CASE, initialisations, PARAMETER, kind and length selectors, keyword arguments, array "
        "constructors, implied-DOs, substrings, strides, pointer targets, RETURN, ASSOCIATE, computed GO TO, "
        "arithmetic IF) where the expression node is located by its text. Non-trivial = two operators "
        "of different precedence levels or two of the same level.")
EXHAUSTIVE_RULE = ("all shapes x all operator assignments up to the stated node count x 2 spacings; every fifth tree "
                   "also inside one of the 32 statement contexts, in rotation")
MIN_NONTRIVIAL = 0.3
ASSUMPTIONS = ["reference grammar vf/exprs.py (table from R701-R723; cross-checked against a table-free "
               "recursive-descent implementation by selftest)"]

_parser_ready = {"std": None}


def _ensure(std):
    ParserFactory().create(std=std)


def shapes(n):
    """All tree shapes with n operator nodes; leaves are None."""
    if n == 0:
        yield None
        return
    for s in shapes(n - 1):
        yield ("un", s)
    for k in range(n):
        for l in shapes(k):
            for r in shapes(n - 1 - k):
                yield ("bin", l, r)


def count_slots(shape):
    if shape is None:
        return 0, 0
    if shape[0] == "un":
        b, u = count_slots(shape[1])
        return b, u + 1
    b1, u1 = count_slots(shape[1])
    b2, u2 = count_slots(shape[2])
    return b1 + b2 + 1, u1 + u2


def fill(shape, bins, uns, atoms):
    """Instantiate shape with operator iterators and an atom iterator."""
    if shape is None:
        return ("atom", next(atoms))
    if shape[0] == "un":
        op = next(uns)
        return ("un", op, fill(shape[1], bins, uns, atoms))
    op = next(bins)
    l = fill(shape[1], bins, uns, atoms)
    r = fill(shape[2], bins, uns, atoms)
    return ("bin", op, l, r)


_DOTTED_OPS = {".and.", ".or.", ".not.", ".eqv.", ".neqv.", ".eq.", ".ne.", ".lt.", ".le.", ".gt.", ".ge.", ".myop.", ".inv."}


def spread_dotted(text, variant):
    """Fixed form: blanks are insignificant, so a dotted operator may be written '. and .', '.and .' or '. and.'."""
    from vf import lexer
    out = []
    pos = 0
    for k, t in lexer.lex_line(text):
        j = text.index(t, pos)
        out.append(text[pos:j])
        pos = j + len(t)
        if k == "DOT" and t.lower() in _DOTTED_OPS:
            name = t[1:-1]
            t = [". %s ." % name, ".%s ." % name, ". %s." % name][variant % 3]
        out.append(t)
    out.append(text[pos:])
    return "".join(out)


def make_case(tree, sp, ctx="expr", std="f2003", idx=0):
    m = X.minimal(tree)
    text = X.render(m, sp)
    if ctx == "fixed":
        if len(text) > 58 or "!" in text:
            ctx = "assign"
        else:
            text = spread_dotted(text, idx)
    levels = X.op_levels(tree)
    return {"expr": text, "expected": X.fullparen(m), "ctx": ctx, "std": std,
            "meta": {"nops": len(levels), "levels": sorted(set(levels)), "kf04": kf04_shape(m), "kf05": kf05_shape(text)}}


def kf04_shape(m):
    """F-04: somewhere a defined binary operator whose right operand shows a dotted token outside parentheses,
    or (after fparser's right-most split) whose left operand ends in one."""
    k = m[0]
    if k == "atom":
        return False
    if k == "par":
        return kf04_shape(m[1])
    if k == "un":
        return kf04_shape(m[2])
    if X.is_defined_op(m[1]) and gen.has_top_dotted(m[3]):
        return True
    return kf04_shape(m[2]) or kf04_shape(m[3])


def kf05_shape(text):
    import re
    return bool(re.search(r"\.[a-z]+\.\d+\.?\d*[ed][+-]\d", text, re.I))


def exhaustive(tier, flags):
    nmax_full = 2 if tier == "quick" else 3
    idx = 0
    yield from chain_cases(tier)
    for n in range(1, 4):
        if n <= nmax_full:
            bins_pool, uns_pool = BIN_OPS, UN_OPS
        else:
            bins_pool, uns_pool = BIN_REPS, UN_OPS
        for shape in shapes(n):
            nb, nu = count_slots(shape)
            for bops in itertools.product(bins_pool, repeat=nb):
                for uops in itertools.product(uns_pool, repeat=nu):
                    idx += 1
                    atoms = (ATOMS[(idx * 7 + k * 3) % len(ATOMS)] for k in itertools.count())
                    tree = fill(shape, iter(bops), iter(uops), atoms)
                    for sp in (" ", ""):
                        yield make_case(tree, sp, "expr", "f2003" if idx % 2 else "f2008", idx)
                    if n <= 2 and any(o.startswith(".") for o in bops + uops):
                        yield make_case(tree, " ", "fixed", "f2003", idx)
                    if idx % 5 == 0:
                        # every fifth tree also inside one of the statement contexts, in rotation
                        ctxs = sorted(MORE_CONTEXTS)
                        ctx = ctxs[(idx // 5) % len(ctxs)]
                        if not (ctx == "do_bound" and "=" in "".join(bops)):
                            yield make_case(tree, " ", ctx, "f2008" if idx % 2 else "f2003", idx)


CHAIN_CLASSES = [["+", "-"], ["*", "/"], ["//"], [".and."], [".or."], [".eqv.", ".neqv."], [".myop.", ".x."], ["**"]]


def chain_tree(ops, atoms):
    """Flat chain a0 op1 a1 op2 a2 ...: left-associative, except ** which associates to the right."""
    if ops and ops[0] == "**":
        t = ("atom", atoms[-1])
        for op, a in zip(reversed(ops), reversed(atoms[:-1])):
            t = ("bin", op, ("atom", a), t)
        return t
    t = ("atom", atoms[0])
    for op, a in zip(ops, atoms[1:]):
        t = ("bin", op, t, ("atom", a))
    return t


def chain_cases(tier):
    import sys
    k = 0
    for cls in CHAIN_CLASSES:
        for n in ((12, 40, 52, 64) if tier == "quick" else (12, 40, 51, 52, 53, 64, 100, 130)):
            k += 1
            ops = [cls[(i * 7 + k) % len(cls)] for i in range(n - 1)]
            atoms = [["a", "b2", "x_1", "arr(i)", "1.0e-3", "z1"][(i + k) % 6] + ("" if i % 3 else "") for i in range(n)]
            yield make_case(chain_tree(ops, atoms), " " if k % 2 else "", "assign" if k % 3 == 0 else "expr", "f2003" if k % 2 else "f2008", k)
        # chains whose operands are all DISTINCT non-trivial parenthesised groups / argument lists (10+ of them at one
        # nesting level: fparser numbers the masked groups, and number 1 is a textual prefix of numbers 10-19)
        for n in (11, 14, 23):
            k += 1
            ops = [cls[(i * 5 + k) % len(cls)] for i in range(n - 1)]
            if cls[0] in (".and.", ".or.", ".eqv."):
                atoms = [["lf(i + %d, 2)", "lg(.not. p%d)", "lm(%d:)"][i % 3] % i for i in range(n)]
            elif cls[0] == "//":
                atoms = [["cf(i + %d)", "s(%d:i + 1)", "ct(t%d // 'a')"][i % 3] % i for i in range(n)]
            else:
                atoms = [["q(i + %d)", "g(%d - j)", "f(x, %d * y)", "w(%d, j - 1)"][i % 4] % i for i in range(n)]
            for ctx in ("expr", "assign", "arg"):
                yield make_case(chain_tree(ops, atoms), " ", ctx, "f2003" if k % 2 else "f2008", k)


def rand_tree(r, d):
    if d <= 0 or r.chance(25):
        return ("atom", r.pick(ATOMS))
    c = r.n(0, 9)
    if c <= 5:
        return ("bin", r.pick(BIN_OPS), rand_tree(r, d - 1), rand_tree(r, d - 1))
    if c <= 7:
        return ("un", r.pick(UN_OPS), rand_tree(r, d - 1))
    return ("par", rand_tree(r, d - 1))


def avoid_kf04(m):
    """Wrap the right operand of a defined binary operator in parentheses when it shows a dotted token."""
    k = m[0]
    if k == "atom":
        return m
    if k == "par":
        return ("par", avoid_kf04(m[1]))
    if k == "un":
        return ("un", m[1], avoid_kf04(m[2]))
    l, r = avoid_kf04(m[2]), avoid_kf04(m[3])
    if X.is_defined_op(m[1]) and gen.has_top_dotted(r):
        r = ("par", r)
    return ("bin", m[1], l, r)


def build(rnd, tier, flags):
    r = gen.R(rnd)
    if r.chance(5):
        cls = r.pick(CHAIN_CLASSES)
        n = r.n(8, 110)
        tree = chain_tree([r.pick(cls) for _ in range(n - 1)], [r.pick(ATOMS[:12]) for _ in range(n)])
        return make_case(tree, r.pick([" ", ""]), r.pick(["expr", "assign", "arg"]), r.pick(["f2003", "f2008"])), {}
    tree = rand_tree(r, r.n(2, 6))
    ctx = r.pick(["expr", "assign", "if", "arg", "subscript", "expr", "fixed"])
    if r.chance(35):
        ctx = r.pick(sorted(MORE_CONTEXTS))
    root = tree
    while root[0] == "par":
        root = root[1]
    if ctx in MORE_CONTEXTS and root[0] == "atom":
        ctx = "assign"          # a lone primary carries no grouping (and typed contexts reject literals of another type)
    if ctx == "do_bound" and "=" in X.render(X.minimal(tree)):
        ctx = "assign"          # 'do i = 1, a == b' is not a valid bound and the '=' confuses the loop-control split
    if ctx == "if" and root[0] == "atom":
        # IF (<literal>) is rejected by design (C705: logical-expr shall be of type logical)
        ctx = "assign"
    sp = r.pick([" ", " ", ""])
    std = r.pick(["f2003", "f2008"])
    excl = {}
    if "no_defined_binop_before_dotted" in flags and kf04_shape(X.minimal(tree)):
        tree = avoid_kf04(X.minimal(tree))
        excl["no_defined_binop_before_dotted"] = 1
    vidx = r.n(0, 2)
    case = make_case(tree, sp, ctx, std, vidx)
    if "no_dotted_op_glued_to_signed_exponent" in flags and case["meta"]["kf05"]:
        case = make_case(tree, " ", ctx, std, vidx)
        excl["no_dotted_op_glued_to_signed_exponent"] = 1
    return case, excl


# ---- reading fparser's tree -------------------------------------------------

def node_to_tree(n):
    if isinstance(n, two_utils.BinaryOpBase):
        l, op, r = n.items
        return ("bin", str(op).lower().replace(" ", ""), node_to_tree(l), node_to_tree(r))
    if isinstance(n, two_utils.UnaryOpBase):
        op, r = n.items
        return ("un", str(op).lower().replace(" ", ""), node_to_tree(r))
    if isinstance(n, F03.Parenthesis):
        return ("par", node_to_tree(n.items[1]))
    return ("atom", str(n))


WRAP = {
    "fixed": ("      program p\n      res = %s\n      end\n", F03.Assignment_Stmt, lambda n: n.items[2]),
    "assign": ("program p\nres = %s\nend\n", F03.Assignment_Stmt, lambda n: n.items[2]),
    "if": ("program p\nif (%s) res = 1\nend\n", F03.If_Stmt, lambda n: n.items[0]),
    "arg": ("program p\ncall sub(%s, 1)\nend\n", F03.Call_Stmt, lambda n: n.items[1].items[0]),
    "subscript": ("program p\nres = qq(%s, 2)\nend\n", F03.Assignment_Stmt, lambda n: n.items[2].items[1].items[0]),
}


# further statement contexts: the expression node is found generically as the outermost node whose text is the
# expression (printing never adds parentheses, so a mis-grouped tree still prints the same text)
MORE_CONTEXTS = {
    "print_item": "program p\nprint *, 'x', %s, 1\nend\n",
    "write_item": "program p\nwrite(6, *) %s, k\nend\n",
    "io_unit": "program p\nwrite(unit = %s, fmt = *) k\nend\n",
    "do_bound": "program p\ndo i = 1, %s, 2\nend do\nend\n",
    "do_while": "program p\ndo while (%s)\nend do\nend\n",
    "where_mask": "program p\nwhere (%s) vv = 1\nend\n",
    "if_then": "program p\nif (%s) then\nelse if (l0) then\nend if\nend\n",
    "else_if": "program p\nif (l0) then\nelse if (%s) then\nend if\nend\n",
    "select_case": "program p\nselect case (%s)\ncase default\nend select\nend\n",
    "case_value": "program p\nselect case (k)\ncase (%s)\nend select\nend\n",
    "init": "program p\nreal :: vv = %s\nend\n",
    "parameter": "program p\nparameter (vv = %s)\nend\n",
    "dim_bound": "subroutine p(n)\nreal :: vv(2, %s)\nend\n",
    "char_len": "subroutine p(n)\ncharacter(len = %s) :: cc\nend\n",
    "kind": "program p\nreal(kind = %s) :: vv\nend\n",
    "keyword_arg": "program p\ncall sub(1, key = %s)\nend\n",
    "function_arg": "program p\nres = fn(1, %s)\nend\n",
    "ac_value": "program p\nvv = [1, %s]\nend\n",
    "ac_implied_do": "program p\nvv = (/ (%s, i = 1, 3) /)\nend\n",
    "forall_bound": "program p\nforall (i = 1:%s) vv(i) = 1\nend\n",
    "allocate_bound": "program p\nallocate(vv(%s))\nend\n",
    "component_subscript": "program p\nres = obj%%cc(%s)\nend\n",
    "substring_bound": "program p\ncc = ss(%s:)\nend\n",
    "section_stride": "program p\nvv = ww(1:9:%s)\nend\n",
    "lhs_subscript": "program p\nvv(%s) = 1\nend\n",
    "data_implied_do_bound": "program p\ndata (vv(i), i = 1, %s) /3*0/\nend\n",
    "pointer_target": "program p\npp => tt(%s)\nend\n",
    "return_code": "subroutine p(*)\nreturn %s\nend\n",
    "assoc_selector": "program p\nassociate (zz => %s)\nend associate\nend\n",
    "stmt_in_if": "program p\nif (l0) res = %s\nend\n",
    "computed_goto": "program p\ngo to (10, 20), %s\n10 continue\n20 continue\nend\n",
    "arith_if": "program p\nif (%s) 10, 20, 10\n10 continue\n20 continue\nend\n",
}
def _squash(t):
    return "".join(t.split()).lower()


def _find_expr_node(tree, text):
    from vf.treeform import iter_nodes
    want = _squash(text)
    for n in iter_nodes(tree):
        if isinstance(n, (two_utils.BinaryOpBase, two_utils.UnaryOpBase, F03.Parenthesis)) or not getattr(n, "children", None):
            try:
                if _squash(str(n)) == want:
                    return n
            except Exception:  # noqa: BLE001
                continue
    return None


def evaluate(case):
    res = _evaluate(case)
    if not res.ok:
        meta = case.get("meta", {})
        res.bucket += "".join("+" + k for k in ("kf04", "kf05") if meta.get(k))
    return res


def _evaluate(case):
    text, exp, ctx, std = case["expr"], case["expected"], case["ctx"], case["std"]
    meta = case.get("meta", {})
    lv = meta.get("levels", [])
    nontrivial = meta.get("nops", 0) >= 2
    labels = ["ctx=" + ctx, "nops=%d" % min(meta.get("nops", 0), 6)]
    if meta.get("kf04"):
        labels.append("kf04-shape")
    node = None
    if ctx == "expr":
        _ensure(std)
        try:
            node = F03.Expr(text)
        except NoMatchError as e:
            return Result(False, "reject:Expr", nontrivial, labels, {"error": str(e)[:200], "expr": text})
        except Exception as e:  # noqa: BLE001
            return Result(False, "exception:%s" % type(e).__name__, nontrivial, labels, {"error": str(e)[:200]})
    elif ctx in MORE_CONTEXTS:
        o = guarded_parse(MORE_CONTEXTS[ctx] % text, std=std)
        if o.kind != "tree":
            return Result(False, "reject:%s:%s" % (ctx, o.kind), nontrivial, labels, {"error": o.text, "expr": text})
        node = _find_expr_node(o.tree, text)
        if node is None:
            return Result(False, "no-node:%s" % ctx, nontrivial, labels, {"printed": str(o.tree), "expr": text})
    else:
        tmpl, cls, pick = WRAP[ctx]
        o = guarded_parse(tmpl % text, std=std)
        if o.kind != "tree":
            return Result(False, "reject:%s:%s" % (ctx, o.kind), nontrivial, labels, {"error": o.text, "expr": text})
        found = walk(o.tree, cls)
        if not found:
            return Result(False, "no-node:%s" % ctx, nontrivial, labels, {"printed": str(o.tree)})
        try:
            node = pick(found[0])
        except Exception as e:  # noqa: BLE001
            return Result(False, "unexpected-shape:%s" % ctx, nontrivial, labels, {"repr": repr(found[0])[:500]})
    got = X.fullparen(node_to_tree(node))
    if got != exp:
        # classify by the pair of operator levels involved at the first difference
        return Result(False, "grouping:%s" % _diff_class(case, got), nontrivial, labels,
                      {"expr": text, "expected": exp, "got": got})
    return Result(True, None, nontrivial, labels)


def _diff_class(case, got):
    exp = case["expected"]
    i = next((k for k, (a, b) in enumerate(zip(exp, got)) if a != b), min(len(exp), len(got)))
    ctxe = exp[max(0, i - 1):i + 8]
    import re
    ops = re.findall(r" (\S+) ", " " + exp + " ")
    cls = sorted({_opclass(o) for o in ops})
    return ",".join(cls)[:60]


def _opclass(o):
    o = o.lower()
    try:
        return "L%d" % X.bin_levels(o)[0]
    except KeyError:
        return "L?"


def kf_match(entry, case, res):
    m = entry.get("signature", {}).get("matcher")
    meta = case.get("meta", {})
    b = res.bucket or ""
    if m == "kf04":
        return b.startswith("reject") and "+kf04" in b
    if m == "kf05":
        return b.startswith("reject") and "+kf05" in b and "+kf04" not in b
    return False
