"""C16: symbol tables mirror the scoping structure and drive intrinsic resolution."""
import re
from vf import gen
from vf.env import guarded_parse, SYMBOL_TABLES, walk, F03
from vf.runner import Result
from vf.treeform import class_names

ID = "C16"
BUDGET = {"quick": 2400, "thorough": 40000}
RULE = ("Dedicated generator: random nests of modules, submodules, main programs (with and without PROGRAM), external "
        "subprograms, contained subprograms and named/unnamed BLOCK constructs placed inside IF/DO/label-DO/non-block "
        "DO constructs; per scope a random set of intrinsic-typed declarations (with and without '::', with DIMENSION / "
        "EXTERNAL / ALLOCATABLE / POINTER / SAVE / TARGET / VOLATILE attributes or an initialisation) whose names are drawn from intrinsic "
        "names and ordinary names, USE statements (plain, ONLY, rename), and references name(args) with an admissible "
        "argument count in every scope. Oracle after create('f2008'); parse(P): the forest of symbol tables (name, "
        "children in order, data symbols, used modules; unnamed BLOCKs by order) equals the scope tree known by "
        "construction, no duplicates or leftovers; each reference is an Intrinsic_Function_Reference iff its name is "
        "an intrinsic not declared/imported in its own or a host scope. Non-trivial = >= 3 nesting levels and a "
        "reference whose status differs from the same name's in a sibling scope.")
MIN_NONTRIVIAL = 0.1
ASSUMPTIONS = ["str(SymbolTable) lists the data symbols and used modules of a table"]

# generic names and legacy specific names (a declaration shadows exactly the name it declares)
INTR = {"sin": 1, "cos": 1, "abs": 1, "max": 2, "min": 2, "sum": 1, "size": 1, "mod": 2, "real": 1, "int": 1,
        "iabs": 1, "dabs": 1, "dsqrt": 1, "float": 1, "amax1": 2, "min0": 2, "dsin": 1}
ORD = ["aa", "bb", "cc"]
TYPES = ["integer", "real", "logical", "real(kind = 8)", "double precision", "character(len = 4)", "complex"]


class Scope:
    def __init__(self, kind, name, parent=None):
        self.kind, self.name, self.parent = kind, name, parent
        self.decl = set()
        self.imported = set()
        self.modules = set()
        self.children = []
        if parent is not None:
            parent.children.append(self)

    def visible(self, nm):
        s = self
        while s is not None:
            if nm in s.decl or nm in s.imported:
                return True
            s = s.parent
        return False

    def depth(self):
        d, s = 0, self
        while s.parent is not None:
            d, s = d + 1, s.parent
        return d


class G16:
    def __init__(self, rnd, flags):
        self.r = gen.R(rnd)
        self.lines = []
        self.refs = []          # (ref id, name, scope, expected intrinsic?)
        self.tops = []
        self.nref = 0
        self.nblock = 0
        self.label = 0
        self.names = set()
        self.flags = set(flags)
        self.excluded = {}

    def uname(self, base):
        for i in range(1, 50):
            nm = "%s%d" % (base, i)
            if nm not in self.names:
                self.names.add(nm)
                return nm

    def sp(self, nm):
        """A spelling of the (lower-case) name nm: Fortran is case-insensitive, tables are keyed in lower case."""
        c = self.r.n(0, 5)
        if c <= 2:
            return nm
        if c == 3:
            return nm.upper()
        if c == 4:
            return nm.capitalize()
        return "".join(ch.upper() if i % 2 else ch for i, ch in enumerate(nm))

    def emit(self, s):
        self.lines.append(s)

    def spec(self, sc):
        r = self.r
        for _ in range(r.n(0, 2)):
            m = r.pick(["ext_a", "ext_b"])
            # module-nature axis: 'use :: m', 'use, intrinsic :: m', 'use, non_intrinsic :: m' (R1109)
            nat = r.pick(["", "", " ::", ", intrinsic ::", ", non_intrinsic ::", ",intrinsic::"])
            if "intrinsic" in nat and "non_" not in nat:
                m = r.pick(["iso_c_binding", "iso_fortran_env"])
            c = r.n(0, 3)
            if c == 0:
                self.emit("use%s %s" % (nat, m))
            elif c == 1:
                nm = r.pick(list(INTR) + ORD)
                self.emit("use%s %s, only: %s" % (nat, m, self.sp(nm)))
                sc.imported.add(nm)
            elif c == 2:
                nm = r.pick(list(INTR) + ORD)
                self.emit("use%s %s, %s => remote_x" % (nat, m, self.sp(nm)))
                sc.imported.add(nm)
            else:
                nm = r.pick(list(INTR))
                self.emit("use%s %s, only: loc_y => %s" % (nat, m, nm))   # remote name only: does not shadow
                sc.imported.add("loc_y")
            sc.modules.add(m)
        for _ in range(r.n(0, 3)):
            names = []
            for _ in range(r.n(1, 2)):
                nm = r.pick(list(INTR) + ORD) if r.chance(70) else r.pick(ORD)
                if nm not in names:
                    names.append(nm)
            t = r.pick(TYPES)
            arr = "(10)"
            form = r.n(0, 9)
            ents = lambda suffix: ", ".join(self.sp(n) + suffix for n in names)  # noqa: E731
            if form <= 3:
                self.emit("%s :: %s" % (t, ents(arr)))
            elif form == 4:
                self.emit("%s %s" % (t, ents(arr)))                                  # old style, no '::'
            elif form == 5:
                self.emit("%s, %s :: %s" % (t, r.pick(["dimension(10)", "dimension(2, 3), save"]), ents("")))
            elif form == 6:
                self.emit("%s, external :: %s" % (t, ents("")))                        # a user function of that name
            elif form == 7:
                self.emit("%s, %s :: %s" % (t, r.pick(["allocatable", "pointer", "allocatable, target"]), ents("(:)")))
            elif form == 8:
                self.emit("%s, %s :: %s" % (t, r.pick(["save", "target", "volatile", "save, target"]), ents(arr)))
            else:
                self.emit("%s :: %s" % (r.pick(["integer", "real"]), ents("(2) = 0")))
            sc.decl.update(names)

    def ref(self, sc):
        r = self.r
        nm = r.pick(list(INTR) + ORD[:1])
        self.nref += 1
        rid = "r%d" % self.nref
        nargs = INTR.get(nm, 1)
        args = ", ".join(["1.0", "2.0"][:nargs]) if nm in INTR and nm not in ("sum", "size") else "1"
        if nm in ("sum", "size"):
            args = "vv"
        self.emit("%s = %s(%s)" % (rid, self.sp(nm), args))
        self.refs.append([rid, nm, sc, nm in INTR and not sc.visible(nm)])

    def exec_part(self, sc, depth):
        r = self.r
        for _ in range(r.n(1, 3)):
            c = r.n(0, 9)
            if c <= 4 or depth >= 3:
                self.ref(sc)
            elif c == 5:
                self.emit("if (flag) then")
                self.exec_part(sc, depth + 1)
                self.emit("end if")
            elif c == 6:
                self.emit("do i = 1, 2")
                self.exec_part(sc, depth + 1)
                self.emit("end do")
            elif c == 7:
                self.label += 10
                lab = self.label
                self.emit("do %d i = 1, 2" % lab)
                self.exec_part(sc, depth + 1)
                if r.chance(50):
                    self.emit("%d continue" % lab)
                elif "no_block_in_nonblock_do" in self.flags and self._had_block:
                    self.excluded["no_block_in_nonblock_do"] = self.excluded.get("no_block_in_nonblock_do", 0) + 1
                    self.emit("%d continue" % lab)
                else:
                    self.emit("%d q%d = 1" % (lab, lab))       # non-block DO: forces back-tracking
                    self.nonblock = True
            else:
                self.block(sc, depth + 1)
                if r.chance(35):
                    self.block(sc, depth + 1)       # a sibling BLOCK right behind: same parent, separate tables

    def block(self, sc, depth):
        r = self.r
        self._had_block = True
        if r.chance(40):
            nm = self.uname("blk")
            b = Scope("block", nm, sc)
            spn = self.sp(nm)
            self.emit("%s: block" % spn)
            end = "end block %s" % self.sp(nm)
        else:
            b = Scope("block", None, sc)
            self.emit("block")
            end = "end block"
        self.spec_block(b)
        self.exec_part(b, depth)
        self.emit(end)

    def spec_block(self, sc):
        # BLOCK specification part: declarations only (USE is allowed too but keep it simple and frequent)
        self.spec(sc)

    def subprogram(self, parent, depth, allow_contains=True):
        r = self.r
        nm = self.uname("sub")
        sc = Scope("subprogram", nm, parent)
        if parent is None:
            self.tops.append(sc)
        isf = r.chance(30)
        self.emit(("function %s()" if isf else "subroutine %s") % self.sp(nm))
        self.spec(sc)
        self._had_block = False
        self.exec_part(sc, 1)
        if allow_contains and r.chance(35):
            self.emit("contains")
            for _ in range(r.n(1, 2)):
                self.subprogram(sc, depth + 1, allow_contains=False)
        self.emit("end %s %s" % ("function" if isf else "subroutine", self.sp(nm)))

    def program(self):
        r = self.r
        nunits = r.n(1, 3)
        kinds = []
        for _ in range(nunits):
            kinds.append(r.pick(["module", "sub", "main", "submodule", "sub", "module"]))
        if kinds.count("main") > 1:
            kinds = [k if k != "main" or i == kinds.index("main") else "sub" for i, k in enumerate(kinds)]
        # a main program without PROGRAM statement only as the sole/last unit (F-02 drops units before it)
        for i, k in enumerate(kinds):
            if k == "module" or k == "submodule":
                nm = self.uname("m")
                sc = Scope(k, nm, None)
                self.tops.append(sc)
                self.emit("module %s" % self.sp(nm) if k == "module" else "submodule (parent_m) %s" % self.sp(nm))
                self.spec(sc)
                if r.chance(60):
                    self.emit("contains")
                    for _ in range(r.n(1, 2)):
                        self.subprogram(sc, 1)
                self.emit("end %s %s" % (k, self.sp(nm)))
            elif k == "sub":
                self.subprogram(None, 0)
            else:
                with_stmt = not r.chance(35)
                nm = self.uname("prog") if with_stmt else "fparser2:main_program"
                sc = Scope("program", nm, None)
                self.tops.append(sc)
                if with_stmt:
                    self.emit("program %s" % self.sp(nm))
                self.spec(sc)
                self._had_block = False
                self.exec_part(sc, 1)
                if r.chance(30):
                    self.emit("contains")
                    self.subprogram(sc, 1, allow_contains=False)
                self.emit("end program %s" % nm if with_stmt else "end")


def scope_json(sc):
    return {"name": sc.name, "kind": sc.kind, "symbols": sorted(sc.decl), "modules": sorted(sc.modules),
            "children": [scope_json(c) for c in sc.children]}


def build(rnd, tier, flags):
    g = G16(rnd, flags)
    g.nonblock = False
    g.program()
    refs = [[rid, nm, sc.depth(), bool(exp)] for rid, nm, sc, exp in g.refs]
    # does some name have different status in different scopes?
    status = {}
    for rid, nm, sc, exp in g.refs:
        status.setdefault(nm, set()).add(bool(exp))
    maxd = max([sc.depth() for _, _, sc, _ in g.refs] + [0])
    r = g.r
    if r.chance(40):
        # several statements per line: scoping statements of different regions may share a line number
        heavy = r.chance(50)
        joined = []
        unit_kw = re.compile(r"\s*(module|submodule|program|subroutine|function|contains|end\s*$|end\s*(module|submodule|"
                             r"program|subroutine|function)\b)", re.I)
        for ln in g.lines:
            if (joined and not unit_kw.match(ln) and not unit_kw.match(joined[-1].split(";")[-1])
                    and not re.match(r"\s*\d", ln) and r.chance(80 if heavy else 25)):
                joined[-1] += r.pick(["; ", ";", " ; "]) + ln
            else:
                joined.append(ln)
        g.lines = joined
    if r.chance(40):
        # lines that are no statements but are kept as nodes next to them: cpp directives and unresolved INCLUDE
        # lines, anywhere between the lines (also directly in front of a nested scoping unit)
        out = []
        for ln in g.lines:
            if r.chance(12):
                out.append(r.pick(["#ifdef X", "#endif", "#define N 1", "include 'not_there.inc'", "#include \"x.h\""]))
            out.append(ln)
        g.lines = out
    case = {"src": "\n".join(g.lines) + "\n", "scopes": [scope_json(s) for s in g.tops], "refs": refs,
            "meta": {"max_depth": maxd, "mixed_status": any(len(v) == 2 for v in status.values()),
                     "nonblock_do": g.nonblock}}
    return case, g.excluded


def _table_json(t):
    txt = str(t)
    m = re.search(r"Symbols:\n(.*?)Used modules:\n(.*?)===========", txt, re.S)
    syms = [x for x in m.group(1).split("\n") if x.strip()] if m else []
    mods = [x for x in m.group(2).split("\n") if x.strip()] if m else []
    return {"name": t.name, "symbols": sorted(syms), "modules": sorted(mods), "children": [_table_json(c) for c in t.children]}


def _norm_blocks(forest):
    """Replace synthetic 'block:<n>' names by order of appearance; expected unnamed blocks get the same."""
    counter = [0]

    def rec(t):
        nm = t["name"]
        if nm is None or re.match(r"block:\d+$", str(nm)):
            nm = "block:#%d" % counter[0]
            counter[0] += 1
        return {"name": nm, "symbols": t["symbols"], "modules": t["modules"], "children": [rec(c) for c in t["children"]]}
    return [rec(t) for t in forest]


def evaluate(case):
    meta = case.get("meta", {})
    labels = ["depth=%d" % min(meta.get("max_depth", 0), 4)]
    if meta.get("nonblock_do"):
        labels.append("nonblock-do")
    nontrivial = meta.get("max_depth", 0) >= 2 and bool(meta.get("mixed_status"))
    o = guarded_parse(case["src"], std="f2008")
    if o.kind != "tree":
        return Result(False, "reject:%s" % o.kind, nontrivial, labels, {"error": o.text})
    if SYMBOL_TABLES.current_scope is not None:
        return Result(False, "scope-left-open", nontrivial, labels, {"scope": SYMBOL_TABLES.current_scope.name})
    names = str(SYMBOL_TABLES).split("\n")[2:]
    names = [n for n in names if n.strip()]
    want_top = [s["name"] for s in case["scopes"]]
    if sorted(names) != sorted(want_top):
        return Result(False, "top-level-tables-differ", nontrivial, labels, {"got": names, "expected": want_top})
    got = _norm_blocks([_table_json(SYMBOL_TABLES.lookup(n)) for n in want_top])
    exp = _norm_blocks([{"name": s["name"], "symbols": s["symbols"], "modules": s["modules"], "children": s["children"]}
                        for s in case["scopes"]])

    def strip(t):
        return {"name": t["name"], "symbols": t["symbols"], "modules": t["modules"], "children": [strip(c) for c in t["children"]]}
    exp = [strip(e) for e in exp]
    if got != exp:
        what = _first_table_diff(got, exp)
        tag = "+nonblock-do" if meta.get("nonblock_do") else ""
        return Result(False, "tables:%s%s" % (what, tag), nontrivial, labels, {"got": got, "expected": exp})
    # references
    by = {}
    for a in walk(o.tree, F03.Assignment_Stmt):
        by[str(a.items[0]).lower()] = a.items[2]
    for rid, nm, depth, exp_intr in case["refs"]:
        node = by.get(rid)
        if node is None:
            return Result(False, "reference-missing", nontrivial, labels, {"ref": rid})
        is_intr = isinstance(node, F03.Intrinsic_Function_Reference)
        if is_intr != exp_intr:
            return Result(False, "resolution:%s" % ("spurious-intrinsic" if is_intr else "missed-intrinsic"), nontrivial,
                          labels, {"ref": rid, "name": nm, "node": type(node).__name__, "depth": depth})
    return Result(True, None, nontrivial, labels, classes=class_names(o.tree))


def _first_table_diff(got, exp):
    if len(got) != len(exp):
        return "count"
    for g, e in zip(got, exp):
        for k in ("name", "symbols", "modules"):
            if g[k] != e[k]:
                return k
        if len(g["children"]) != len(e["children"]):
            return "children-count:%s" % ("extra" if len(g["children"]) > len(e["children"]) else "missing")
        d = _first_table_diff(g["children"], e["children"])
        if d:
            return d
    return None


def kf_match(entry, case, res):
    pat = entry.get("signature", {}).get("bucket_regex")
    return bool(pat and re.fullmatch(pat, res.bucket or ""))
