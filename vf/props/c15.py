"""C15: OpenMP conditional-compilation lines: parsed when enabled, comments otherwise."""
from vf import gen, layout, progs
from vf.env import guarded_parse, walk, F03, FortranStringReader
from vf.runner import Result
from vf.compare import tree_diff
from vf.treeform import class_names

ID = "C15"
BUDGET = {"quick": 2000, "thorough": 30000}
RULE = ("Programs from G; a drawn subset S of whole simple statements (so that P minus S is valid) is hidden behind "
        "the conditional sentinel: free form '!$ ' with any indentation and continuation lines '!$ &', '!$&' or '!$ '; "
        "fixed form '!$', 'c$', 'C$', '*$' in columns 1-2 with label digits in 3-5 and a continuation mark in column "
        "6; plus genuine '!$omp' directive lines. Oracle: tree(enabled) == tree(P) (with comments kept the '!$omp' "
        "lines are the only comments); tree(disabled, comments ignored) == tree(P minus S); with comments kept and "
        "handling off every hidden line is a Comment with its text. Non-trivial = S has a continued statement or "
        "a labelled one in fixed form, and an '!$omp' line is present.")
MIN_NONTRIVIAL = 0.15
FOREIGN_EXCLUSIONS = ("no_defined_binop_before_dotted",)
ASSUMPTIONS = ["removing a 'removable' statement (declaration, assignment, CALL, I/O ...) leaves a valid program"]
OMP_LINES = ["!$omp parallel do", "!$OMP END PARALLEL DO", "!$omp barrier", "!$omp critical"]


def _split(r, st):
    """Split a statement's text at a token gap: (head, tail) or None."""
    toks = [t for _, t in layout.stmt_tokens(st)]
    if len(toks) < 3:
        return None
    k = r.n(1, len(toks) - 1)

    def join(ts):
        out = ""
        for i, t in enumerate(ts):
            if i:
                out += " " if layout.needs_space(ts[i - 1], t) else layout.default_gap(ts[i - 1], t)
            out += t
        return out
    return join(toks[:k]), join(toks[k:])


def build(rnd, tier, flags):
    units, flat, g = progs.make_program(rnd, flags, max_units=2)
    r = gen.R(rnd)
    meta = progs.meta_of(flat)
    std = "f2008" if (meta["f08"] or g.o.f08) else r.pick(["f2003", "f2008"])
    fixed = r.chance(40)
    full, sent, minus, hidden = [], [], [], []
    cont_used = lab_used = omp = False
    first = True
    for st, d in flat:
        hide = st.removable and not first and r.chance(35) and st.role == "simple"
        first = False
        if r.chance(8):
            o = r.pick(OMP_LINES)
            omp = True
            sent.append(o)                      # '!' in column 1: a comment line in both forms
        if fixed:
            lab = (st.label or "")
            body = ((st.cname + ": ") if st.cname else "") + st.src
            line = lab.ljust(5)[:5] + " " + body
            full.append(line)
            if not hide:
                sent.append(line)
                minus.append(line)
                continue
            s = r.pick(["!$", "c$", "C$", "*$"])
            lab3 = lab.rjust(3) if len(lab) <= 3 else None
            if lab3 is None:
                sent.append(line)
                minus.append(line)
                continue
            sp = _split(r, st) if r.chance(40) else None
            if sp and not st.cname:
                head, tail = sp
                l1 = s + lab3 + " " + head
                l2 = s + "   " + r.pick(["&", "1", "+", "x"]) + tail
                sent.extend([l1, l2])
                hidden.extend([l1, l2])
                cont_used = True
            else:
                l1 = s + lab3 + " " + body
                sent.append(l1)
                hidden.append(l1)
            if lab:
                lab_used = True
        else:
            ind = " " * r.n(0, 6)
            line = gen.stmt_text(st)
            full.append(line)
            if not hide:
                sent.append(line)
                minus.append(line)
                continue
            sp = _split(r, st) if r.chance(40) else None
            pre = (st.label + " " if st.label else "") + ((st.cname + ": ") if st.cname else "")
            if sp:
                head, tail = sp
                l1 = ind + "!$ " + pre + head + " &"
                l2 = " " * r.n(0, 6) + r.pick(["!$ & ", "!$& ", "!$ ", "!$  &"]) + tail
                sent.extend([l1, l2])
                hidden.extend([l1, l2])
                cont_used = True
            else:
                l1 = ind + "!$ " + line
                sent.append(l1)
                hidden.append(l1)
    meta.update({"fixed": fixed, "cont": cont_used, "labelled_fixed": lab_used and fixed, "omp": omp,
                 "n_hidden": len(hidden)})
    case = {"full": "\n".join(full) + "\n", "sent": "\n".join(sent) + "\n", "minus": "\n".join(minus) + "\n",
            "hidden": hidden, "std": std, "fixed": fixed, "meta": meta}
    return case, progs.excluded_counts(g)


def evaluate(case):
    meta = case.get("meta", {})
    nontrivial = bool((meta.get("cont") or meta.get("labelled_fixed")) and meta.get("omp"))
    labels = ["fixed" if case["fixed"] else "free"] + [k for k in ("cont", "labelled_fixed", "omp") if meta.get(k)]
    if not case["hidden"]:
        labels.append("nothing-hidden")
    std = case["std"]
    o_full = guarded_parse(case["full"], std=std)
    o_minus = guarded_parse(case["minus"], std=std)
    if o_full.kind != "tree" or o_minus.kind != "tree":
        return Result(True, None, False, labels, precondition_failed=True)
    mode = FortranStringReader(case["sent"]).format.mode
    if (mode == "fix") != bool(case["fixed"]):
        return Result(True, None, False, labels, precondition_failed=True)
    o_en = guarded_parse(case["sent"], std=std, include_omp_conditional_lines=True)
    if o_en.kind != "tree":
        return Result(False, "enabled:reject:%s" % o_en.kind, nontrivial, labels, {"error": o_en.text})
    d = tree_diff(o_full.tree, o_en.tree)
    if d:
        return Result(False, "enabled:tree:" + d[0], nontrivial, labels, {})
    o_enk = guarded_parse(case["sent"], std=std, ignore_comments=False, include_omp_conditional_lines=True)
    if o_enk.kind != "tree":
        return Result(False, "enabled-kept:reject:%s" % o_enk.kind, nontrivial, labels, {"error": o_enk.text})
    comm = [str(c).strip() for c in walk(o_enk.tree, F03.Comment) if str(c).strip()]
    if any(not c.lower().startswith("!$omp") for c in comm):
        bad = [c for c in comm if not c.lower().startswith("!$omp")][0]
        return Result(False, "enabled-kept:hidden-line-left-as-comment", nontrivial, labels, {"comment": bad})
    o_dis = guarded_parse(case["sent"], std=std)
    if o_dis.kind != "tree":
        return Result(False, "disabled:reject:%s" % o_dis.kind, nontrivial, labels, {"error": o_dis.text})
    d = tree_diff(o_minus.tree, o_dis.tree)
    if d:
        return Result(False, "disabled:tree:" + d[0], nontrivial, labels, {})
    o_disk = guarded_parse(case["sent"], std=std, ignore_comments=False)
    if o_disk.kind != "tree":
        return Result(False, "disabled-kept:reject:%s" % o_disk.kind, nontrivial, labels, {"error": o_disk.text})
    comm = [str(c).strip() for c in walk(o_disk.tree, F03.Comment) if str(c).strip()]
    want = [h.strip() for h in case["hidden"]]
    got_hidden = [c for c in comm if not c.lower().startswith("!$omp")]
    if got_hidden != want:
        return Result(False, "disabled-kept:comments-differ", nontrivial, labels,
                      {"expected": want[:6], "got": got_hidden[:6]})
    return Result(True, None, nontrivial, labels, classes=class_names(o_en.tree))
