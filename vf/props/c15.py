"""C15: OpenMP conditional-compilation lines: parsed when enabled, comments otherwise."""
from vf import gen, layout, progs
from vf.env import guarded_parse, walk, F03, FortranStringReader
from vf.runner import Result
from vf.compare import tree_diff
from vf.treeform import class_names

ID = "C15"
BUDGET = {"quick": 2000, "thorough": 30000}
RULE = ("Programs from G; a drawn subset S of whole simple statements (so that P minus S is valid) is hidden behind "
        "the conditional sentinel: free form '!$ ' with any indentation and continuation lines '!$ &', '!$&' or '!$ '; "
        "fixed form '!$', 'c$', 'C$', '*$' in columns 1-2 with label digits in 3-5 and a continuation mark in column "
        "6; plus genuine '!$omp' directive lines. Oracle: tree(enabled) == tree(P) (with comments kept the '!$omp' "
        "lines are the only comments); tree(disabled, comments ignored) == tree(P minus S); with comments kept and "
        "handling off every hidden line is a Comment with its text. Non-trivial = S has a continued statement or "
        "a labelled one in fixed form, and an '!$omp' line is present.")
MIN_NONTRIVIAL = 0.15
FOREIGN_EXCLUSIONS = ("no_defined_binop_before_dotted",)
ASSUMPTIONS = ["removing a 'removable' statement (declaration, assignment, CALL, I/O ...) leaves a valid program"]
OMP_LINES = ["!$omp parallel do", "!$OMP END PARALLEL DO", "!$omp barrier", "!$omp critical"]


def _split(r, st):
    """Split a statement's text at 1-3 token gaps: list of chunks (>= 2) or None.  The blank that separates the
    two tokens at a split goes to the start of the following chunk (fixed form: a chunk must not rely on a
    trailing blank; see DESIGN 3.5)."""
    toks = [t for _, t in layout.stmt_tokens(st)]
    if len(toks) < 3:
        return None
    ncuts = min(r.n(1, 3), len(toks) - 1)
    cuts = sorted({r.n(1, len(toks) - 1) for _ in range(ncuts)})

    def join(ts):
        out = ""
        for i, t in enumerate(ts):
            if i:
                out += " " if layout.needs_space(ts[i - 1], t) else layout.default_gap(ts[i - 1], t)
            out += t
        return out
    chunks = []
    prev = 0
    for c in cuts + [len(toks)]:
        gap = " " if prev and layout.needs_space(toks[prev - 1], toks[prev]) else ""
        chunks.append(gap + join(toks[prev:c]))
        prev = c
    return chunks


def build(rnd, tier, flags):
    units, flat, g = progs.make_program(rnd, flags, max_units=2)
    r = gen.R(rnd)
    meta = progs.meta_of(flat)
    std = "f2008" if (meta["f08"] or g.o.f08) else r.pick(["f2003", "f2008"])
    fixed = r.chance(40)
    full, sent, minus, hidden, plain = [], [], [], [], []
    cont_used = lab_used = omp = multi = inter = False
    first = True
    for st, d in flat:
        # the first statement of the file may be hidden too (main program without PROGRAM statement)
        hide = st.removable and r.chance(60 if first else 35) and st.role == "simple"
        first = False
        if r.chance(8):
            o = r.pick(OMP_LINES)
            sent.append(o)                     # '!' in column 1: a comment line in both forms
            plain.append(o)
            omp = True
        if fixed:
            lab = (st.label or "")
            body = ((st.cname + ": ") if st.cname else "") + st.src
            line = lab.ljust(5)[:5] + " " + body
        else:
            line = gen.stmt_text(st)
        full.append(line)
        if fixed and hide and len(st.label or "") > 3:
            hide = False
        if not hide:
            sent.append(line)
            minus.append(line)
            continue
        chunks = (_split(r, st) if r.chance(45) else None) or None
        if fixed and st.cname:
            chunks = None
        stmt_lines = []      # physical lines of the hidden statement, comments/blank lines interleaved
        sentinel_lines = []
        if fixed:
            s = r.pick(["!$", "c$", "C$", "*$"])
            lab3 = (st.label or "").rjust(3)
            if chunks:
                mark = r.pick(["&", "1", "+", "x"])
                parts = [s + lab3 + " " + chunks[0]] + [s + "   " + mark + ch for ch in chunks[1:]]
            else:
                parts = [s + lab3 + " " + ((st.cname + ": ") if st.cname else "") + st.src]
            comment_pool = ["C plain comment", "", "* star comment", "! bang comment"]
            if st.label:
                lab_used = True
        else:
            ind = " " * r.n(0, 6) if not r.chance(15) else r.pick(["\t", " \t", "\t\t"])     # tabs are blanks to the reader
            pre = (st.label + " " if st.label else "") + ((st.cname + ": ") if st.cname else "")
            if chunks:
                parts = [ind + r.pick(["!$ ", "!$ ", "!$ ", "!$\t"]) + pre + chunks[0] + " &"]
                for k, ch in enumerate(chunks[1:]):
                    last = k == len(chunks) - 2
                    parts.append(" " * r.n(0, 6) + r.pick(["!$ & ", "!$& ", "!$ ", "!$  &"]) + ch + ("" if last else " &"))
            else:
                parts = [ind + r.pick(["!$ ", "!$ ", "!$ ", "!$\t"]) + line]
            comment_pool = ["! plain comment", "", "   ! indented comment"]
        for k, p in enumerate(parts):
            if k and r.chance(25):
                c = r.pick(comment_pool)
                stmt_lines.append(c)
                if c.strip():
                    plain.append(c.strip())
                inter = True
            stmt_lines.append(p)
            sentinel_lines.append(p)
        if len(parts) > 1:
            cont_used = True
        if len(parts) > 2:
            multi = True
        sent.extend(stmt_lines)
        hidden.extend(sentinel_lines)
    meta.update({"fixed": fixed, "cont": cont_used, "cont3": multi, "comment_in_hidden_cont": inter,
                 "labelled_fixed": lab_used and fixed, "omp": omp, "n_hidden": len(hidden)})
    case = {"full": "\n".join(full) + "\n", "sent": "\n".join(sent) + "\n", "minus": "\n".join(minus) + "\n",
            "hidden": hidden, "plain_comments": plain, "std": std, "fixed": fixed, "meta": meta,
            # fixed-form sources are also read with the form set explicitly: non-strict ('fix') and strict ('f77')
            "source_form": (r.pick([None, None, "fix", "f77"]) if fixed else None), "via_file": r.chance(30)}
    if case["source_form"] == "f77" and any(len(ln) > 72 for ln in full + sent + minus):
        case["source_form"] = "fix"       # strict mode cuts every line at column 72; these texts are not wrapped
    return case, progs.excluded_counts(g)


def evaluate(case):
    meta = case.get("meta", {})
    nontrivial = bool((meta.get("cont") or meta.get("labelled_fixed")) and meta.get("omp"))
    labels = ["fixed" if case["fixed"] else "free"] + [k for k in ("cont", "cont3", "comment_in_hidden_cont",
                                                                     "labelled_fixed", "omp") if meta.get(k)]
    if not case["hidden"]:
        labels.append("nothing-hidden")
    std = case["std"]
    sf = case.get("source_form")
    if sf:
        labels.append("explicit-" + sf)
    import functools
    gp = functools.partial(guarded_parse, source_form=sf) if sf else guarded_parse
    if case.get("via_file"):
        labels.append("file-reader")
        gp = functools.partial(gp, via_file=True)      # the same options through FortranFileReader
    o_full = gp(case["full"], std=std)
    o_minus = gp(case["minus"], std=std)
    if o_full.kind != "tree" or o_minus.kind != "tree":
        return Result(True, None, False, labels, precondition_failed=True)
    mode = FortranStringReader(case["sent"]).format.mode
    if not sf and (mode == "fix") != bool(case["fixed"]):
        return Result(True, None, False, labels, precondition_failed=True)
    o_en = gp(case["sent"], std=std, include_omp_conditional_lines=True)
    if o_en.kind != "tree":
        return Result(False, "enabled:reject:%s" % o_en.kind, nontrivial, labels, {"error": o_en.text})
    d = tree_diff(o_full.tree, o_en.tree)
    if d:
        return Result(False, "enabled:tree:" + d[0], nontrivial, labels, {})
    if sf == "f77":
        # strict F77 mode does not deliver comment items at all (with either comment setting), so only the
        # comment-free comparisons apply there
        o_dis = gp(case["sent"], std=std)
        if o_dis.kind != "tree":
            return Result(False, "disabled:reject:%s" % o_dis.kind, nontrivial, labels, {"error": o_dis.text})
        d = tree_diff(o_minus.tree, o_dis.tree)
        if d:
            return Result(False, "disabled:tree:" + d[0], nontrivial, labels, {})
        return Result(True, None, nontrivial, labels, classes=class_names(o_en.tree))
    o_enk = gp(case["sent"], std=std, ignore_comments=False, include_omp_conditional_lines=True)
    if o_enk.kind != "tree":
        return Result(False, "enabled-kept:reject:%s" % o_enk.kind, nontrivial, labels, {"error": o_enk.text})
    comm = [str(c).strip() for c in walk(o_enk.tree, F03.Comment) if str(c).strip()]
    want_plain = list(case.get("plain_comments", []))
    if comm != want_plain:
        extra = [c for c in comm if c not in want_plain]
        return Result(False, "enabled-kept:comments-differ:%s" % ("hidden-line-left-as-comment" if extra else "comment-lost"),
                      nontrivial, labels, {"got": comm[:8], "expected": want_plain[:8]})
    # the option is independent of process_directives (which keeps comments and turns '!$omp ...' into Directive nodes)
    o_enp = gp(case["sent"], std=std, process_directives=True, include_omp_conditional_lines=True)
    if o_enp.kind != "tree":
        return Result(False, "enabled-directives:reject:%s" % o_enp.kind, nontrivial, labels, {"error": o_enp.text})
    left = [str(c).strip() for c in walk(o_enp.tree, F03.Comment) if str(c).strip()]
    left += [str(c).strip() for c in walk(o_enp.tree, F03.Directive)]
    if sorted(left) != sorted(want_plain):
        extra = [c for c in left if c not in want_plain]
        return Result(False, "enabled-directives:comments-differ:%s" % ("hidden-line-left-as-comment" if extra else "comment-lost"),
                      nontrivial, labels, {"got": left[:8], "expected": want_plain[:8]})
    if True:
        plain_set = set(want_plain)
        kept = [" ".join(ln.split()) for ln in str(o_enp.tree).split("\n") if ln.strip() and ln.strip() not in plain_set]
        ref = [" ".join(ln.split()) for ln in str(o_full.tree).split("\n") if ln.strip()]
        if kept != ref:
            k = next((i for i, (a, b) in enumerate(zip(kept, ref)) if a != b), min(len(kept), len(ref)))
            return Result(False, "enabled-directives:text-differs", nontrivial, labels,
                          {"got": kept[k:k + 2], "expected": ref[k:k + 2]})
    o_dis = gp(case["sent"], std=std)
    if o_dis.kind != "tree":
        return Result(False, "disabled:reject:%s" % o_dis.kind, nontrivial, labels, {"error": o_dis.text})
    d = tree_diff(o_minus.tree, o_dis.tree)
    if d:
        return Result(False, "disabled:tree:" + d[0], nontrivial, labels, {})
    o_disk = gp(case["sent"], std=std, ignore_comments=False)
    if o_disk.kind != "tree":
        return Result(False, "disabled-kept:reject:%s" % o_disk.kind, nontrivial, labels, {"error": o_disk.text})
    comm = [str(c).strip() for c in walk(o_disk.tree, F03.Comment) if str(c).strip()]
    ws = lambda t: " ".join(t.split())        # the reader expands tabs: compare modulo runs of white space  # noqa: E731
    want = [ws(h) for h in case["hidden"]]
    got_hidden = [ws(c) for c in comm]
    for pc in case.get("plain_comments", []):
        if ws(pc) in got_hidden:
            got_hidden.remove(ws(pc))
    if got_hidden != want:
        return Result(False, "disabled-kept:comments-differ", nontrivial, labels,
                      {"expected": want[:6], "got": got_hidden[:6]})
    return Result(True, None, nontrivial, labels, classes=class_names(o_en.tree))
