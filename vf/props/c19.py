"""C19: the legacy statement-level parser (fparser1) round-trips its own output."""
import re
from vf import gen, layout, lexer
from vf.gen import Stmt, Block
from vf.runner import Result

ID = "C19"
BUDGET = {"quick": 2000, "thorough": 30000}
RULE = ("F77/F90 projection of G (program, module with CONTAINS (subroutines and functions), subroutine, function, block data; old/new style "
        "declarations, IMPLICIT, PARAMETER, DATA, COMMON, DIMENSION, SAVE, EXTERNAL, derived types; IF/ELSE IF/ELSE, DO "
        "(plain, WHILE, labelled with CONTINUE/END DO), SELECT CASE, WHERE constructs; assignments, CALL, IF statements, "
        "I/O, GOTO/RETURN/STOP, FORMAT) in free and fixed form, analyze in {False, True}. Oracle: S1 = str(parse1(P)), "
        "S2 = str(parse1(S1)): statement lists equal after dropping the !BEGINSOURCE line, indentation and blanks after "
        "a label; the (class, depth) sequence of api.walk is equal for both parses and the depth sequence equals the "
        "generator's nesting; for every statement its expression texts occur unchanged in the corresponding line of S1 "
        "(blanks removed, case-insensitive outside literals) and every name, number and literal of the source statement "
        "occurs in that line (each occurrence consumed once, order not compared). FUNCTION statements carry optional "
        "PURE/RECURSIVE/ELEMENTAL, a type in the prefix and RESULT. Non-trivial = nesting depth >= 2 and a labelled or "
        "construct-named statement.")
MIN_NONTRIVIAL = 0.2
MAX_PRECOND_FRACTION = 0.05
ASSUMPTIONS = ["programs rejected by api.parse (AnalyzeError etc.) are outside the property's domain (counted)"]


class G19(gen.Gen):
    def __init__(self, rnd):
        super().__init__(rnd, gen.Opts(excl={"no_defined_binop", "no_defined_unary"}, expr_depth=2))
        self.frags = []
        self.allow_types = True

    # expressions restricted to what a F77/F90 statement-level parser keeps verbatim
    def num_atom(self, d):
        r = self.r
        c = r.n(0, 6 if d > 0 else 3)
        if c == 0:
            return self.name(gen.NUM_NAMES[:8])
        if c == 1:
            return self.int_lit()
        if c == 2:
            return r.pick(gen.REAL_LITS[:8])
        if c == 3:
            return self.name(gen.INT_NAMES)
        if c == 4:
            return "%s(%s)" % (self.name(gen.ARR_NAMES), self.int_expr(0))
        if c == 5:
            return "%s(%s, %s)" % (self.name(gen.FUN_NAMES), self.name(gen.NUM_NAMES[:4]), self.int_lit())
        return "%s(%s)" % (r.pick(["sin", "abs", "sqrt"]), self.name(gen.NUM_NAMES[:4]))

    def ex(self, typ="num", d=2):
        e = self.expr(typ, d)
        return e

    def decl(self):
        r = self.r
        c = r.n(0, 8)
        S = Stmt
        nm = lambda p=gen.NUM_NAMES[:8]: self.name(p)  # noqa: E731
        if c == 0:
            return S("integer %s, %s" % (nm(gen.INT_NAMES), nm(gen.INT_NAMES[3:])), "decl"), []
        if c == 1:
            e = self.ex("num", 1)
            return S("real, parameter :: %s = %s" % (nm(), e), "decl"), [e]
        if c == 2:
            return S("real*8 %s(%s)" % (nm(gen.ARR_NAMES), self.small_int()), "decl"), []
        if c == 3:
            s = r.pick(gen.STR_LITS[:10])
            return S("character(len = 10) :: %s = %s" % (nm(gen.CHR_NAMES), s), "decl"), [s]
        if c == 4:
            return S("double precision %s" % nm(), "decl"), []
        if c == 5:
            return S("dimension %s(%s, %s)" % (nm(gen.ARR_NAMES), self.small_int(), self.small_int()), "decl"), []
        if c == 6:
            a, b, c2, d2 = nm(), nm(gen.INT_NAMES), nm(gen.ARR_NAMES), nm(gen.LOG_NAMES)
            return S(r.pick(["common /blk/ %s, %s" % (a, b), "common %s, %s /blk/ %s" % (a, b, c2),
                             "common // %s /blk/ %s, %s" % (a, b, c2), "common /b1/ %s, /b2/ %s, %s" % (a, b, d2),
                             "common %s, %s" % (a, c2), "common /b1/ %s // %s /b1/ %s" % (a, b, c2)]), "decl"), []
        if c == 7:
            v = r.pick(gen.REAL_LITS[:6])
            return S("data %s /%s/" % (nm(), v), "decl"), [v]
        if r.chance(40):
            e = self.ex("num", 1)
            return S(r.pick(["parameter (%s = %s)" % (nm(), e), "integer, parameter :: %s = %s" % (nm(gen.INT_NAMES), e),
                             "real :: %s(%s) = %s" % (nm(gen.ARR_NAMES), self.small_int(), e)]), "decl"), [e]
        if r.chance(30):
            return S(r.pick(["equivalence (%s, %s)" % (nm(), nm(gen.INT_NAMES)), "namelist /nl/ %s, %s" % (nm(), nm(gen.INT_NAMES)),
                             "intrinsic sin, cos", "allocatable %s" % nm(gen.ARR_NAMES), "target %s" % nm(),
                             "pointer %s" % nm(gen.OBJ_NAMES), "implicit real (a-h, o-z)", "optional %s" % nm()]), "decl"), []
        return S(r.pick(["save", "external %s" % nm(gen.FUN_NAMES), "logical %s" % nm(gen.LOG_NAMES),
                         "complex %s" % nm(), "integer, dimension(3) :: %s" % nm(gen.ARR_NAMES)]), "decl"), []

    def simple(self, ctx):
        r = self.r
        S = Stmt
        c = r.n(0, 12)
        if c <= 4:
            e = self.ex(r.pick(["num", "num", "log", "chr"]))
            lhs = self.name(gen.NUM_NAMES[:8]) if r.chance(70) else "%s(%s)" % (self.name(gen.ARR_NAMES), self.int_expr(0))
            return S("%s = %s" % (lhs, e), "assign"), [e]
        if c == 5:
            e = self.ex("num", 1)
            return S("call %s(%s, %s)" % (self.name(gen.SUB_NAMES), e, self.name(gen.NUM_NAMES[:4])), "call"), [e]
        if c == 6:
            cnd = self.ex("log", 2)
            e = self.ex("num", 1)
            return S("if (%s) %s = %s" % (cnd, self.name(gen.NUM_NAMES[:4]), e), "if_stmt"), [cnd, e]
        if c == 7:
            e = self.ex("num", 1)
            return S("print *, %s, %s" % (r.pick(gen.STR_LITS[:10]), e), "print"), [e]
        if c == 8:
            e = self.ex("num", 1)
            return S("write(6, *) %s" % e, "write"), [e]
        if c == 9:
            return S("read(5, *) %s" % self.name(gen.NUM_NAMES[:4]), "read"), []
        if c == 10:
            return S(r.pick(["continue", "stop", "return" if ctx.get("sub") else "continue"]), "simple"), []
        if c == 11:
            return S("open(unit = 10, file = %s)" % r.pick(["'f.txt'", '"d/x.dat"']), "open"), []
        lab = ctx["target"]()
        c = r.n(0, 11)
        if c == 0:
            e = self.ex("num", 2)
            return S("go to (%s, %s)%s %s" % (lab, ctx["target"](), r.pick([",", ""]), e), "computed_goto"), [e]
        if c == 1:
            e = self.ex("num", 2)
            return S("if (%s) %s, %s, %s" % (e, lab, ctx["target"](), lab), "arith_if"), [e]
        if c == 2:
            cnd, e = self.ex("log", 1), self.ex("num", 1)
            return S("if (%s) go to (%s, %s), %s" % (cnd, lab, lab, e), "if_stmt"), [cnd, e]
        if c == 3:
            e = self.ex("num", 1)
            return S("allocate(%s(%s), stat = ios)" % (self.name(gen.ARR_NAMES), e), "allocate"), [e]
        if c == 4:
            return S(r.pick(["close(unit = 10)", "rewind 10", "backspace(unit = 10, iostat = ios)", "endfile 10",
                             "inquire(unit = 10, exist = ok)", "deallocate(%s)" % self.name(gen.ARR_NAMES),
                             "nullify(%s)" % self.name(gen.OBJ_NAMES)]), "simple"), []
        if c == 5:
            e1, e2 = self.ex("num", 1), self.ex("chr", 1)
            return S("write(6, '(a, i3)') %s, %s" % (e2, e1), "write"), [e1, e2]
        if c == 6:
            e = "%s(%s)" % (self.name(gen.ARR_NAMES), self.ex("num", 1))
            return S("%s => %s" % (self.name(gen.OBJ_NAMES), e), "ptr_assign"), [e]
        if c == 7:
            e = self.ex("num", 1)
            return S("read(5, *, err = %s, end = %s) %s(%s)" % (lab, lab, self.name(gen.ARR_NAMES), e), "read"), [e]
        if c == 8:
            e = self.ex("num", 1)
            return S("call %s(%s, key = %s)" % (self.name(gen.SUB_NAMES), self.name(gen.NUM_NAMES[:4]), e), "call"), [e]
        return S("go to %s" % lab, "goto"), []

    def item(self, ctx, depth):
        r = self.r
        S = Stmt
        if depth < 3 and r.chance(35):
            k = r.pick(["if", "do", "dolab", "select", "where", "dowhile"])
            nm = r.pick(gen.CONSTRUCT_NAMES) if r.chance(20) and k in ("if", "do") and nm_free(ctx) else None
            sub = dict(ctx)
            if nm:
                sub["cn"] = tuple(ctx.get("cn", ())) + (nm,)
            end = (" " + nm) if nm else ""
            if k == "if":
                c1 = self.ex("log", 2)
                self.frags.append((None, [c1]))
                segs = [(None, self.body(sub, depth + 1))]
                op = S("if (%s) then" % c1, "if_then", cname=nm)
                op.expr = [c1]
                if r.chance(40):
                    c2 = self.ex("log", 1)
                    m = S("else if (%s) then" % c2, "else_if")
                    m.expr = [c2]
                    segs.append((m, self.body(sub, depth + 1)))
                if r.chance(40):
                    segs.append((S("else", "else"), self.body(sub, depth + 1)))
                return Block("if", op, S("end if%s" % end, "end_if"), segs)
            if k in ("do", "dowhile"):
                if k == "do":
                    e = self.int_expr(1)
                    op = S("do %s = 1, %s" % (self.name(gen.INT_NAMES), e), "do", cname=nm)
                    op.expr = [e]
                else:
                    e = self.ex("log", 1)
                    op = S("do while (%s)" % e, "do", cname=nm)
                    op.expr = [e]
                return Block("do", op, S("end do%s" % end, "end_do"), [(None, self.body(sub, depth + 1))])
            if k == "dolab":
                lab = ctx["label"]()
                op = S("do %s %s = 1, %s" % (lab, self.name(gen.INT_NAMES), self.small_int()), "do_label")
                cl = S(r.pick(["continue", "end do"]), "end_do", label=lab)
                return Block("do_label", op, cl, [(None, self.body(sub, depth + 1))])
            if k == "select":
                segs = []
                for _ in range(r.n(1, 2)):
                    segs.append((S("case (%s)" % r.pick(["1", "2:3", "4, 6"]), "case"), self.body(sub, depth + 1)))
                if r.chance(50):
                    segs.append((S("case default", "case"), self.body(sub, depth + 1)))
                return Block("select_case", S("select case (%s)" % self.name(gen.INT_NAMES), "select_case"),
                             S("end select", "end_select"), segs)
            arr = self.name(gen.ARR_NAMES)

            def wb():
                out = []
                for _ in range(r.n(1, 2)):
                    e = self.ex("num", 1)
                    st = S("%s = %s" % (self.name(gen.ARR_NAMES), e), "assign")
                    st.expr = [e]
                    out.append(st)
                return out
            segs = [(None, wb())]
            if r.chance(50):
                segs.append((S("elsewhere", "elsewhere"), wb()))
            return Block("where", S("where (%s > 0)" % arr, "where"), S("end where", "end_where"), segs)
        st, ex = self.simple(ctx)
        st.expr = ex
        if r.chance(8) and st.kind != "goto":
            st.label = ctx["label"]()
        return st

    def body(self, ctx, depth):
        return [self.item(ctx, depth) for _ in range(self.r.n(0, 3))]

    def unit_body(self, sub):
        labels = [0]
        targets = []

        def label():
            labels[0] += 10
            return str(labels[0])

        def target():
            if targets and self.r.chance(50):
                return self.r.pick(targets)
            lab = label()
            targets.append(lab)
            return lab
        ctx = {"label": label, "target": target, "sub": sub}
        items = []
        if self.r.chance(40):
            items.append(Stmt("implicit none", "decl"))
        for _ in range(self.r.n(0, 4)):
            st, ex = self.decl()
            st.expr = ex
            items.append(st)
        if self.allow_types and self.r.chance(25):
            tn = self.name(gen.TYPE_NAMES)
            items.append(Block("type", Stmt("type %s" % tn, "type"), Stmt("end type %s" % tn, "end_type"),
                               [(None, [Stmt("integer :: %s" % self.name(gen.COMP_NAMES), "decl"),
                                        Stmt("real :: %s(3)" % self.name(gen.COMP_NAMES[2:]), "decl")])]))
        for _ in range(self.r.n(0, 5)):
            items.append(self.item(ctx, 1))
        if self.r.chance(20):
            lab = label()
            items.append(Stmt("format(i2, 2x, f8.3, 'te''xt')", "format", label=lab))
        for lab in targets:
            items.append(Stmt("continue", "simple", label=lab))
        return items

    def function19(self, nm):
        """FUNCTION statement with the optional parts the standard allows: prefix words, a type in the prefix, RESULT"""
        r, S = self.r, Stmt
        pre = []
        if r.chance(30):
            pre.append(r.pick(["pure", "recursive", "elemental"]))
        if r.chance(50):
            pre.append(r.pick(["integer", "real", "logical", "double precision", "complex", "real(kind = 8)", "integer*4",
                               "character(len = 8)", "real*8", "integer(kind = 4)"]))
            if r.chance(50):
                pre.reverse()
        res = ""
        if r.chance(40) or "recursive" in pre:
            res = " result(%s)" % r.pick(["res", "r_out", "val"])
        head = "%sfunction %s(%s)%s" % ("".join(p + " " for p in pre), nm, r.pick(["x", "x, y", ""]), res)
        return Block("function", S(head, "function"), S("end function %s" % nm, "end"), [(None, self.unit_body(True))],
                     unit=True)

    def program19(self):
        r = self.r
        units = []
        for _ in range(r.n(1, 3)):
            k = r.pick(["program", "subroutine", "function", "module", "blockdata"])
            if k == "program" and any(u.kind == "program" for u in units):
                k = "subroutine"
            nm = self.fresh_unit_name()
            S = Stmt
            if k == "program":
                units.append(Block("program", S("program %s" % nm, "program"), S("end program %s" % nm, "end"),
                                   [(None, self.unit_body(False))], unit=True))
            elif k == "subroutine":
                units.append(Block("subroutine", S("subroutine %s(%s)" % (nm, r.pick(["x", "x, y", "n", "x, *", "x, *, n", "*"])), "subroutine"),
                                   S("end subroutine %s" % nm, "end"), [(None, self.unit_body(True))], unit=True))
            elif k == "function":
                units.append(self.function19(nm))
            elif k == "module":
                mn = self.fresh_unit_name(gen.MOD_NAMES)
                decls = []
                for _ in range(r.n(0, 3)):
                    st, ex = self.decl()
                    st.expr = ex
                    if not self.allow_types and st.tmpl.split()[0] in ("common", "dimension", "external"):
                        continue    # not accepted by analyze=True at module level (AttributeError check_private)
                    decls.append(st)
                for _ in range(r.n(0, 2)):
                    # access attributes on module entities
                    e = self.ex("num", 1)
                    decls.append(S(r.pick(["integer, %s :: %s" % (r.pick(["public", "private"]), self.name(gen.INT_NAMES)),
                                           "real, parameter, %s :: %s = %s" % (r.pick(["public", "private"]), self.name(gen.NUM_NAMES[:8]), e),
                                           "real(kind = 8), %s, dimension(3) :: %s" % (r.pick(["public", "private"]), self.name(gen.ARR_NAMES))]),
                                   "decl"))
                segs = [(None, decls)]
                if r.chance(60):
                    inner = []
                    for _ in range(r.n(1, 2)):
                        sn = self.fresh_unit_name()
                        if r.chance(35):
                            inner.append(self.function19(sn))
                            continue
                        inner.append(Block("subroutine", S("subroutine %s(x)" % sn, "subroutine"),
                                           S("end subroutine %s" % sn, "end"), [(None, self.unit_body(True))], unit=True))
                    segs.append((S("contains", "contains"), inner))
                units.append(Block("module", S("module %s" % mn, "module"), S("end module %s" % mn, "end"), segs, unit=True))
            else:
                if r.chance(40):
                    units.append(Block("block_data", S("block data", "block_data"), S(r.pick(["end block data", "end"]), "end"),
                                       [(None, [S("common /blk/ x, y", "decl"), S("data x, y /1.0, 2.0/", "decl")])], unit=True))
                    continue
                units.append(Block("block_data", S("block data %s" % nm, "block_data"), S("end block data %s" % nm, "end"),
                                   [(None, [S("common /blk/ x, y", "decl"), S("data x /1.0/", "decl")])], unit=True))
        return units


def nm_free(ctx):
    return len(ctx.get("cn", ())) == 0


def build(rnd, tier, flags):
    g = G19(rnd)
    r = g.r
    analyze = r.chance(50)
    # fparser1's analyze step does not support derived-type definitions in every kind of unit
    # (AttributeError 'type_decls'): such programs are not accepted, i.e. outside the property's domain
    g.allow_types = not analyze
    units = g.program19()
    flat = gen.finalize(units)
    fixed = r.chance(35)
    if fixed:
        lines = [(st.label or "").ljust(5) + " " + ((st.cname + ": ") if st.cname else "") + st.src for st, _ in flat]
        # wrap long lines at column 72 on a token boundary is not needed: keep statements short; skip if too long
        if any(len(ln) > 72 for ln in lines):
            fixed = False
    if not fixed:
        lines = ["  " * d + gen.stmt_text(st) for st, d in flat]
    stmts = []
    for st, d in flat:
        dd = d + (2 if st.role == "mid" else 1)
        if st.role == "close" and st.block.kind == "do_label" and st.src == "continue":
            dd = d + 2      # fparser1 keeps the terminal CONTINUE of a labelled DO inside the loop
        stmts.append({"depth": dd, "exprs": list(st.expr or []) if isinstance(st.expr, list) else [],
                      "label": st.label, "cname": st.cname, "kind": st.kind, "extra_walk": 1 if st.kind == "if_stmt" else 0})
    maxd = max(d for _, d in flat)
    case = {"src": "\n".join(lines) + "\n", "fixed": fixed, "stmt_src": [st.src for st, _ in flat], "analyze": analyze, "stmts": stmts,
            "meta": {"depth": maxd, "labelled": any(st.label or st.cname for st, _ in flat)}}
    return case


def _body(text):
    out = []
    for ln in text.split("\n"):
        if not ln.strip() or (ln.lstrip().startswith("!") and "BEGINSOURCE" in ln):
            continue
        s = ln.strip()
        s = re.sub(r"^(\d+)\s+", r"\1 ", s)
        out.append(s)
    return out


def _squash(s):
    """blanks removed; lower-cased outside character literals"""
    out = []
    for part in re.split(r"('(?:[^']|'')*'|\"(?:[^\"]|\"\")*\")", s):
        out.append(part if part[:1] in "'\"" else part.replace(" ", "").lower())
    return "".join(out)


def _words_missing(src_stmt, squashed_out):
    """a name / number / literal of the source statement that does not occur in the regenerated line (each occurrence
    is consumed once, longest first; order is not compared because prefix words may be re-ordered legitimately)"""
    toks = []
    for part in re.split(r"('(?:[^']|'')*'|\"(?:[^\"]|\"\")*\")", src_stmt):
        if part[:1] in "'\"":
            toks.append(part)
        else:
            toks += re.findall(r"[a-z_0-9]+", part.lower())
    for t in sorted(toks, key=lambda t: (-len(t), t)):
        j = squashed_out.find(t)
        if j < 0:
            return t
        squashed_out = squashed_out[:j] + "\0" + squashed_out[j + len(t):]
    return None


def evaluate(case):
    import logging
    logging.disable(logging.CRITICAL)
    from vf import env  # noqa: F401  (sys.path)
    from fparser import api
    meta = case.get("meta", {})
    nontrivial = meta.get("depth", 0) >= 2 and bool(meta.get("labelled"))
    labels = ["fixed" if case["fixed"] else "free", "analyze=%s" % case["analyze"]]
    kw = dict(isfree=not case["fixed"], isstrict=False, analyze=case["analyze"], ignore_comments=True)
    try:
        t1 = api.parse(case["src"], **kw)
        s1 = str(t1)
    except BaseException as e:  # noqa: BLE001 - acceptance is the property's precondition
        labels.append("rejected:" + type(e).__name__)
        return Result(True, None, False, labels, precondition_failed=True)
    b1 = _body(s1)
    kw2 = dict(kw)
    kw2["isfree"] = True      # fparser1 regenerates free-form source
    try:
        t2 = api.parse(s1, **kw2)
        s2 = str(t2)
    except BaseException as e:  # noqa: BLE001
        return Result(False, "reparse-raises:%s" % type(e).__name__, nontrivial, labels, {"error": str(e)[:300], "s1": s1[:2000]})
    b2 = _body(s2)
    if b1 != b2:
        i = next((k for k, (a, b) in enumerate(zip(b1, b2)) if a != b), min(len(b1), len(b2)))
        return Result(False, "second-print-differs:%s" % (b1[i].split()[0].lower() if i < len(b1) else "length"), nontrivial, labels,
                      {"first": b1[i] if i < len(b1) else None, "second": b2[i] if i < len(b2) else None})
    # analysis must not change what is regenerated: same statements with analyze on and off
    kw3 = dict(kw)
    kw3["analyze"] = not case["analyze"]
    try:
        b3 = _body(str(api.parse(case["src"], **kw3)))
    except BaseException:  # noqa: BLE001 - the other setting may not accept the program at all
        b3 = None
        labels.append("other-analyze-setting-rejects")
    if b3 is not None and b3 != b1:
        i = next((k for k, (a, b) in enumerate(zip(b1, b3)) if a != b), min(len(b1), len(b3)))
        return Result(False, "analyze-changes-output:%s" % (b1[i].split()[0].lower() if i < len(b1) else "length"), nontrivial, labels,
                      {"analyze=%s" % case["analyze"]: b1[i] if i < len(b1) else None,
                       "analyze=%s" % (not case["analyze"]): b3[i] if i < len(b3) else None})
    w1 = [(type(st).__name__, d) for st, d in api.walk(t1)]
    w2 = [(type(st).__name__, d) for st, d in api.walk(t2)]
    if w1 != w2:
        i = next((k for k, (a, b) in enumerate(zip(w1, w2)) if a != b), min(len(w1), len(w2)))
        return Result(False, "block-structure-changes-on-reparse:%s" % (w1[i][0] if i < len(w1) else "length"), nontrivial, labels,
                      {"first": w1[max(0, i - 2):i + 3], "second": w2[max(0, i - 2):i + 3]})
    stmts = case["stmts"]
    # an IF statement is walked as the IF plus its action statement one level deeper
    w1x = []
    skip = 0
    si = 0
    for cn, d in w1:
        if skip:
            skip -= 1
            continue
        w1x.append((cn, d))
        if si < len(stmts) and stmts[si].get("extra_walk"):
            skip = stmts[si]["extra_walk"]
        si += 1
    w1 = w1x
    if len(w1) != len(stmts):
        return Result(False, "statement-count:%s" % ("fewer" if len(w1) < len(stmts) else "more"), nontrivial, labels,
                      {"walked": len(w1), "generated": len(stmts), "s1": s1[:1500]})
    for k, ((cn, d), st) in enumerate(zip(w1, stmts)):
        if d != st["depth"]:
            return Result(False, "nesting-differs:%s" % st["kind"], nontrivial, labels,
                          {"index": k, "class": cn, "depth": d, "expected": st["depth"], "line": b1[k] if k < len(b1) else None})
    case_lines = case.get("stmt_src")
    if len(b1) == len(stmts):
        for k, (ln, st) in enumerate(zip(b1, stmts)):
            sq = _squash(ln)
            for e in st["exprs"]:
                if _squash(e) not in sq:
                    return Result(False, "expression-text-changed:%s" % st["kind"], nontrivial, labels,
                                  {"index": k, "line": ln, "expression": e})
            missing = _words_missing(case_lines[k], sq) if case_lines else None
            if missing:
                return Result(False, "token-lost:%s" % st["kind"], nontrivial, labels,
                              {"index": k, "source": case_lines[k], "printed": ln, "token": missing})
            if st["kind"] in ("subroutine", "function", "call") and case_lines and case_lines[k].count("*") != ln.count("*"):
                return Result(False, "token-lost:%s:star" % st["kind"], nontrivial, labels,
                              {"index": k, "source": case_lines[k], "printed": ln})
            if st["label"] and not ln.startswith(st["label"] + " "):
                return Result(False, "label-lost:%s" % st["kind"], nontrivial, labels, {"line": ln, "label": st["label"]})
    else:
        return Result(False, "printed-line-count", nontrivial, labels, {"printed": len(b1), "generated": len(stmts)})
    return Result(True, None, nontrivial, labels)
