"""C18: parse trees can be deep-copied and pickled faithfully."""
import copy
import pickle
from vf import gen, layout, progs
from vf.env import guarded_parse, F03, Base
from vf.runner import Result
from vf.treeform import iter_nodes, canon, class_names
from vf.wellformed import check_tree
from vf.props import c10

ID = "C18"
BUDGET = {"quick": 1600, "thorough": 25000}
RULE = ("Trees of programs from G x std x {comments dropped, kept, directives processed}, with cpp directive lines "
        "and unresolved INCLUDE lines inserted in a share of them (string readers). For deepcopy and for a pickle "
        "round trip: no exception; str(copy) == str(T); canonical forms equal; C10's invariants hold on the copy; "
        "no node object shared with T; renaming the first Name of the copy leaves str(T) unchanged. Non-trivial = "
        "the tree has a Comment/Directive/Cpp/Include node and >= 40 nodes.")
MIN_NONTRIVIAL = 0.3
FOREIGN_EXCLUSIONS = ("no_defined_binop_before_dotted",)
ASSUMPTIONS = ["string readers only (the property's configurations); file readers hold an open file object"]

CPP = ["#define X 1", "#ifdef X", "#endif", "#include \"defs.h\"", "#undef X", "# 12 \"file.f90\" 1"]


def build(rnd, tier, flags):
    r0 = gen.R(rnd)
    if r0.chance(25):
        # fixed-form source with the form set explicitly (literals may then end a line in '&' at column 72)
        units, flat, g = progs.make_program(rnd, list(flags) + ["no_blank_at_col72"], max_units=2)
        meta = progs.meta_of(flat)
        std = "f2008" if (meta["f08"] or g.o.f08) else r0.pick(["f2003", "f2008"])
        fo = layout.FixedOpts(wrap=72, comments=r0.pick([0, 20]), cont_comments=r0.pick([0, 30]), lit_cross=100,
                              lit_pad=r0.pick([40, 90]), allow_amp_end=True, names=gen.ALL_NAMES,
                              excl=set(flags) | {"no_blank_at_col72"})
        lay = layout.fixed_layout(flat, rnd, fo)
        return {"src": lay.text, "std": std, "mode": r0.pick(["drop", "keep"]), "source_form": "fix", "meta": meta}, \
            progs.excluded_counts(g, lay)
    case, excl = c10.build(rnd, tier, flags)
    r = gen.R(rnd)
    if r.chance(40):
        lines = case["src"].split("\n")
        for _ in range(r.n(1, 3)):
            # insert at a statement boundary that is not inside a continuation: use canonical/comment-only layouts
            i = r.n(1, max(1, len(lines) - 2))
            if r.chance(50):
                if r.chance(50):
                    from vf.props import c14
                    pair = c14.gen_directive(r)[1]          # every directive kind, incl. #error / #warning / null / markers
                else:
                    pair = ["#ifdef X", "#endif"] if r.chance(40) else [r.pick(CPP[:1] + CPP[3:])]
                lines[i:i] = pair
            else:
                lines[i:i] = ["include 'nofile_%d.inc'" % r.n(1, 3)]
        case["src"] = "\n".join(lines)
        case["extras"] = True
    return case, excl


def evaluate(case):
    labels = ["mode=" + case["mode"]]
    if case.get("source_form"):
        labels.append("explicit-" + case["source_form"])
        o = guarded_parse(case["src"], std=case["std"], ignore_comments=(case["mode"] == "drop"), want_str=True,
                          source_form=case["source_form"])
    else:
        o = c10._parse(case["src"], case["std"], case["mode"])
    if o.kind != "tree":
        # an inserted cpp/include line may have landed where it is not valid; not this property's concern
        return Result(True, None, False, labels, precondition_failed=not case.get("extras"))
    tree = o.tree
    nodes = list(iter_nodes(tree))
    special = [n for n in nodes if type(n).__name__ in ("Comment", "Directive", "Include_Stmt") or
               type(n).__name__.startswith("Cpp_")]
    nontrivial = bool(special) and len(nodes) >= 40
    for n in special[:1]:
        labels.append("has:" + type(n).__name__)
    text = str(tree)
    ref = canon(tree)
    ids = {id(n) for n in nodes}
    for opname, op in (("deepcopy", copy.deepcopy), ("pickle", lambda t: pickle.loads(pickle.dumps(t)))):
        try:
            c = op(tree)
        except Exception as e:  # noqa: BLE001
            return Result(False, "%s-raises:%s" % (opname, type(e).__name__), nontrivial, labels,
                          {"error": str(e)[:300]})
        try:
            ctext = str(c)
        except Exception as e:  # noqa: BLE001
            return Result(False, "%s-str-raises:%s" % (opname, type(e).__name__), nontrivial, labels, {"error": str(e)[:300]})
        if ctext != text:
            return Result(False, "%s-text-differs" % opname, nontrivial, labels, {})
        if canon(c) != ref:
            return Result(False, "%s-structure-differs" % opname, nontrivial, labels, {})
        r = check_tree(c)
        if r:
            return Result(False, "%s-illformed:%s" % (opname, r[0]), nontrivial, labels, r[1])
        shared = [n for n in iter_nodes(c) if id(n) in ids]
        if shared:
            return Result(False, "%s-shares-node:%s" % (opname, type(shared[0]).__name__), nontrivial, labels, {})
        names = [n for n in iter_nodes(c) if isinstance(n, F03.Name)]
        if names:
            names[0].string = "zz_renamed"
            if hasattr(names[0], "items"):
                pass
            if str(tree) != text:
                return Result(False, "%s-mutation-leaks" % opname, nontrivial, labels, {})
    return Result(True, None, nontrivial, labels, classes=class_names(tree))
