"""C09: a parse is a function of its input, not of earlier parses; failed parses leave nothing behind."""
import os
import json
import itertools
import pickle
from vf import gen, progs
from vf.runner import Result
from vf.treeform import renumber_blocks

ID = "C09"
BUDGET = {"quick": 400, "thorough": 6000}
RULE = ("Histories over {create(f2003), create(f2008), parse(v1..v5), parse(i1..i6)} (valid sources: scope-opening "
        "module, unnamed BLOCK, intrinsic-shadowing declaration and the same unit without it, USE + memo-cache line; "
        "invalid ones failing by plain no-match, inside nested blocks, by intrinsic arity, inside a PROGRAM-less main, "
        "inside a contained subprogram, inside a BLOCK). Exhaustive for length <= 3 (quick) / <= 4 (thorough), each "
        "followed by probes create(s); parse(x) for both standards; random histories of <= 12 steps with sources from "
        "G and its mutator. Every history runs in a child forked from a process that imported fparser but never called "
        "create(). Oracle: (a) after every failing parse current_scope is None and str(SYMBOL_TABLES) is what it was "
        "before; (b) every parse directly after create(s) gives the result (repr, str with BLOCK renumbering, or "
        "error text) of create(s); parse(x) in a fresh child; (c) so does a parse separated from its create only by "
        "failing parses. Non-trivial = a failing parse followed by a successful one, or both standards.")
EXHAUSTIVE_RULE = "all histories create(s0) + (n-1) symbols over the 16-symbol alphabet, n <= 3 (quick) / 4 (thorough), + probes"
MIN_NONTRIVIAL = 0.3
ASSUMPTIONS = ["successful parses may leave their symbol tables behind (by design); only failures and create() must not leak"]

SOURCES = {
    "v1": "module m1\ninteger :: aa\ncontains\nsubroutine s1(x)\nreal :: x\nx = abs(x)\nend subroutine s1\nend module m1\n",
    "v2": "program p2\nx = 1\nblock\ninteger :: cos(3)\ny = cos(1)\nend block\nend program p2\n",
    "v3": "program p3\ninteger :: sin(10)\nx = sin(1)\nend program p3\n",
    "v4": "program p3\nx = sin(1.0)\nend program p3\n",
    "v5": "subroutine s5\nuse m1, only: aa\nx = F(A(1)) + f((a(1)))\nX = f(a(1)) + 1.0E3\nend subroutine s5\n",
    "v6": "subroutine s6(total)\nprint *, 'total = ', total ! c\ncall f('a', i) ! it's\nwrite(6, '(a)') \"x\", y  ! \"q\nend subroutine s6\n",
    "v7": "subroutine s7\nx = erf(y) + gamma(z)\ni = shiftl(j, 2) + iabs(k) + shifta(j, 1)\nz = dsqrt(w) + amax1(a, b) + shiftr(j, 3)\nend subroutine s7\n",
    "f1": "program p3\ninclude 'decl_c09.inc'\nx = cos(1.0)\nend program p3\n",
    "v8": "program p4\ninclude 'decl_c09.inc'\ny = cos(2.0)\nend program p4\n",
    "i1": "program p3\nx = = 1\nend program p3\n",
    "i2": "subroutine s1\ninteger :: max\nif (a) then\ndo i = 1, 2\n@@@\nend do\nend if\nend subroutine s1\n",
    "i3": "program p3\ninteger :: tan\nx = sin(1, 2, 3)\nend program p3\n",
    "i4": "x = 1\nif (a) then\nend if foo\nend\n",
    "i5": "module m1\ncontains\nsubroutine s1\ninteger :: cos\nx = = 2\nend subroutine s1\nend module m1\n",
    "i6": "program p2\nblock\ninteger :: abs\n@@@\nend block\nend program p2\n",
}
# a program that exercises most statement families under either standard (class-level caches, memo tables)
RICH = """module rich_m
use other_m, only: a => b
implicit none
integer, parameter :: n = 5
real(kind = 8), dimension(10), save :: arr
character(len = 10) :: str_ = 'ab''c'
type tt
integer :: v
real, pointer :: w(:) => null()
contains
procedure :: m
generic :: g => m
end type tt
interface gen
module procedure p1
end interface gen
contains
subroutine p1(x, y)
real, intent(in) :: x
real, intent(inout), optional :: y
integer :: i, ios, lun
10 format(i2, 2x, f8.3, 'te''xt', /, 1p, e12.4)
open(unit = 10, file = 'f.txt', status = 'old', iostat = ios)
allocate(arr2(10), stat = ios)
nm: do i = 1, 10
if (x > 1.0e-3) then
y = x ** 2 - (-y) + max(x, y)
else if (x < 0) then
cycle nm
else
stop 1
end if
end do nm
do 20 i = 1, 3
write(6, 10) x
20 continue
select case (i)
case (1)
go to 20
case default
where (arr > 0) arr = 1
end select
forall (i = 1:3) arr(i) = 0
close(10)
deallocate(arr2)
end subroutine p1
end module rich_m
"""
SOURCES["rich"] = RICH
SYMS = ["c3", "c8"] + sorted(k for k in SOURCES if k != "rich")
PROBES = [("f2003", "v4"), ("f2008", "v2"), ("f2008", "v1"), ("f2003", "v5"), ("f2003", "v6"), ("f2008", "v6"),
          ("f2008", "v7"), ("f2003", "v7")]


def exhaustive(tier, flags):
    nmax = 3 if tier == "quick" else 4
    for n in range(1, nmax + 1):
        for first in ("c3", "c8"):
            for rest in itertools.product(SYMS, repeat=n - 1):
                steps = [first] + list(rest)
                for s, x in PROBES:
                    steps += ["c3" if s == "f2003" else "c8", x]
                yield {"steps": steps, "sources": {}, "meta": {"exhaustive": True}}
    # F2008-only constructs must still be rejected by a 2003 parser created after 2008 parses of related
    # 2003 statements (and vice versa): class-level state shared between the two registries
    from vf.props import c17
    for name, src in c17.CATALOGUE:
        key = "cat_" + name
        for steps in (["c8", "rich", "c3", key], ["c8", key, "c3", key], ["c3", "rich", "c8", "rich", "c3", key],
                      ["c3", key, "c8", key]):
            yield {"steps": steps, "sources": {key: src}, "meta": {"exhaustive": True, "catalogue": name}}


def build(rnd, tier, flags):
    from vf.props import c06
    r = gen.R(rnd)
    extra = {}
    # half of the histories draw all their unit and subprogram names from four names, so that a top-level unit of one
    # source and a nested unit of another often share a name
    pool = None
    if r.chance(50):
        pool = [gen.UNIT_NAMES[r.n(0, len(gen.UNIT_NAMES) - 1)] for _ in range(4)]
        pool = sorted(set(pool), key=pool.index)
    for k in range(r.n(1, 3)):
        units, flat, g = progs.make_program(rnd, list(flags) + ["no_defined_binop_before_dotted"], max_units=2, max_stmts=3,
                                            unit_pool=pool)
        if r.chance(50):
            from vf import layout
            src = layout.free_layout(flat, rnd, progs.comment_only_opts(gen.ALL_NAMES)).text
        else:
            src = gen.canonical_source(flat)
        extra["g%d" % k] = src
        m = src
        for _ in range(r.n(1, 2)):
            m = c06.mutate(r, m)
        extra["m%d" % k] = m
        # a failing source whose error sits INSIDE a nested scoping unit that is named like a top-level unit of a
        # generated source: that unit as a module procedure / internal procedure / interface body of another host
        tops = [u for u in units if u.kind in ("subroutine", "function") and u.opener is not None]
        if tops and r.chance(60):
            u = r.pick(tops)
            body = [gen.stmt_text(st) for st, _ in gen.flatten([u])]
            at = r.n(1, max(1, len(body) - 1))
            body.insert(at, r.pick(["x = = 1", "@@@", "call (", "y = sin(1.0, 2.0, 3.0)"]))
            host = r.n(0, 2)
            if host == 0:
                n = ["module zz_host", "contains"] + body + ["end module zz_host"]
            elif host == 1:
                n = ["program zz_main", "zq = 1", "contains"] + body + ["end program zz_main"]
            else:
                n = ["subroutine zz_outer", "interface"] + body + ["end interface", "end subroutine zz_outer"]
            extra["n%d" % k] = "\n".join(n) + "\n"
    syms = SYMS + sorted(extra)
    steps = [r.pick(["c3", "c8"])]
    for _ in range(r.n(3, 12)):
        if len(steps) > 2 and r.chance(15):
            steps.append(r.pick([x for x in steps if x not in ("c3", "c8")] or syms))     # parse something again
        else:
            steps.append(r.pick(syms) if not r.chance(20) else r.pick(["c3", "c8"]))
    steps += [r.pick(["c3", "c8"]), r.pick(syms)]
    if r.chance(50):
        from vf.props import c17
        name, src = r.pick(c17.CATALOGUE)
        extra["cat_" + name] = src
        steps += ["rich" if r.chance(50) else r.pick(syms), r.pick(["c3", "c8"]), "cat_" + name]
    return {"steps": steps, "sources": extra, "keep_comments": r.chance(40), "meta": {}}


# ----------------------------------------------------------------------------- child side

def _run_history(steps, sources, keep_comments=False):
    """Executed in a forked child: returns observations per step."""
    from vf import env
    from vf.treeform import renumber_blocks as rb
    obs = []
    std = None
    for s in steps:
        if s == "c3" or s == "c8":
            std = "f2003" if s == "c3" else "f2008"
            env.ParserFactory().create(std=std)
            obs.append({"op": s})
            continue
        src = sources[s]
        before = str(env.SYMBOL_TABLES)
        try:
            if s == "f1":
                # the same text read through FortranFileReader with its default include path (the file's directory),
                # with the include file lying next to it
                import os
                wd = os.path.join(env.VERIF_DIR, ".work", "c09_%d" % os.getpid(), "d1")
                os.makedirs(wd, exist_ok=True)
                with open(os.path.join(wd, "decl_c09.inc"), "w") as fh:
                    fh.write(" real :: cos(10)\n")
                with open(os.path.join(wd, "main_f1.f90"), "w") as fh:
                    fh.write(src)
                reader = env.FortranFileReader(os.path.join(wd, "main_f1.f90"), ignore_comments=not keep_comments)
            else:
                reader = env.FortranStringReader(src, ignore_comments=not keep_comments)
            tree = env.F03.Program(reader)
            out = {"op": s, "kind": "tree", "repr": rb(repr(tree)), "text": rb(str(tree))}
        except env.FortranSyntaxError as e:
            out = {"op": s, "kind": "syntax", "text": str(e)}
        except SystemExit:
            out = {"op": s, "kind": "exit", "text": "SystemExit"}
        except Exception as e:  # noqa: BLE001
            out = {"op": s, "kind": "other", "text": "%s: %s" % (type(e).__name__, str(e)[:200])}
        cs = env.SYMBOL_TABLES.current_scope
        out["scope"] = None if cs is None else cs.name
        out["tables_before"] = before
        out["tables_after"] = str(env.SYMBOL_TABLES)
        out["std"] = std
        obs.append(out)
    return obs


def _in_child(steps, sources, keep_comments=False):
    rfd, wfd = os.pipe()
    pid = os.fork()
    if pid == 0:
        try:
            os.close(rfd)
            try:
                data = pickle.dumps(("ok", _run_history(steps, sources, keep_comments)))
            except BaseException as e:  # noqa: BLE001
                import traceback
                data = pickle.dumps(("error", traceback.format_exc()))
            with os.fdopen(wfd, "wb") as fh:
                fh.write(data)
        finally:
            import shutil
            shutil.rmtree(os.path.join(os.path.dirname(os.path.dirname(os.path.dirname(os.path.abspath(__file__)))), ".work",
                                       "c09_%d" % os.getpid()), ignore_errors=True)
            os._exit(0)
    os.close(wfd)
    with os.fdopen(rfd, "rb") as fh:
        data = fh.read()
    os.waitpid(pid, 0)
    status, payload = pickle.loads(data)
    if status != "ok":
        raise RuntimeError("child failed: " + payload)
    return payload


_HEADER = None


def unit_names(src):
    """Lower-cased names of all program units / subprograms whose header occurs anywhere in src."""
    import re
    if _HEADER is None:
        failing_unit("", "")
    out = set()
    for line in src.split("\n"):
        for part in line.split(";"):
            low = re.sub(r"^\s*\d+\s*", "", part)
            if low.strip().lower().startswith("end"):
                continue
            h = _HEADER.match(low)
            if h:
                out.add(h.group(2).lower())
    return out


def failing_unit(src, errtext):
    """Name of the symbol table of the top-level program unit that was open at the error line
    ('fparser2:main_program' when the line is outside any unit that has a header)."""
    import re
    global _HEADER
    if _HEADER is None:
        prefix = (r"(?:(?:recursive|pure|elemental|impure|module|integer|real|logical|complex|character|double\s*precision|"
                  r"double\s*complex|type\s*\([^)]*\)|class\s*\([^)]*\))"
                  r"(?:\s*\*\s*\d+|\s*\([^()]*(?:\([^()]*\)[^()]*)*\))?\s+)*")
        _HEADER = re.compile(r"^\s*" + prefix + r"(module|program|subroutine|function|submodule\s*\([^)]*\)|block\s*data)"
                             r"\s+([a-z_]\w*)", re.I)
    m = re.match(r"at line (\d+)", errtext or "")
    errline = int(m.group(1)) if m else 10 ** 9
    stack = []
    closed_main0 = False
    for i, line in enumerate(src.split("\n"), 1):
        if i > errline:
            break
        low = re.sub(r"^\d+\s*", "", line.strip().lower())       # a statement label in front
        if low.startswith("end") and "!" in low:
            low = low.split("!", 1)[0].rstrip()      # an END statement holds no character context: the rest is a comment
        if re.match(r"end(\s*(subroutine|function|module|program|submodule|block\s*data)\b(\s+\w+)?)?\s*$", low):
            if i < errline:
                if stack:
                    stack.pop()
                else:
                    closed_main0 = True      # the END of a main program without PROGRAM statement
            continue
        if low.startswith("end") or low.startswith("module procedure"):
            continue
        h = _HEADER.match(line)
        if h and "=" not in re.sub(r"\([^()]*\)", "", line.split(h.group(1))[0]):
            if i < errline or True:
                stack.append(h.group(2).lower())
    if stack:
        return stack[0]
    return None if closed_main0 else "fparser2:main_program"


_fresh = {}


def fresh(std, key, src, keep=False):
    k = (std, src, keep)
    if k not in _fresh:
        o = _in_child(["c3" if std == "f2003" else "c8", key], {key: src}, keep)     # same operation name: 'f1' reads a file
        _fresh[k] = o[1]
    return _fresh[k]


def _same(a, b):
    if a["kind"] != b["kind"]:
        return False
    if a["kind"] == "tree":
        return a["repr"] == b["repr"] and a["text"] == b["text"]
    return a["text"] == b["text"]


def evaluate(case):
    import sys
    assert "fparser.two.parser" not in sys.modules or True
    sources = dict(SOURCES)
    sources.update(case.get("sources") or {})
    steps = case["steps"]
    keep = bool(case.get("keep_comments"))
    obs = _in_child(steps, sources, keep)
    kinds = [o.get("kind") for o in obs if "kind" in o]
    stds = {s for s in steps if s in ("c3", "c8")}
    fail_then_ok = any(a != "tree" and b == "tree" for a, b in zip(kinds, kinds[1:]))
    nontrivial = fail_then_ok or len(stds) == 2
    labels = ["len=%d" % min(len(steps), 20)]
    if fail_then_ok:
        labels.append("fail-then-success")
    clean = False     # only failing parses since the last create
    failures = []
    for i, o in enumerate(obs):
        if "kind" not in o:
            clean = True
            continue
        op = o["op"]
        if o["kind"] != "tree":
            if o["scope"] is not None:
                failures.append(Result(False, "scope-left-open:%s:%s" % (op if op in SOURCES else "gen", o["kind"]), nontrivial,
                                       labels, {"step": i, "scope": o["scope"], "source": sources[op], "steps": steps}))
                break
            if o["tables_after"] != o["tables_before"]:
                before = {x for x in o["tables_before"].split("\n")[2:] if x}
                after = {x for x in o["tables_after"].split("\n")[2:] if x}
                if o["kind"] == "exit":
                    tag = ":exit"
                else:
                    own = failing_unit(sources[op], o.get("text", ""))
                    named = unit_names(sources[op])
                    first = sources[op].split("\n", 1)[0].split()
                    if op[:1] == "n" and len(first) == 2 and first[1].startswith("zz_"):
                        # derived source (see build): one host unit zz_* around a failing nested unit - the
                        # structure is known by construction, so only the host's name may be cleaned up by name
                        own, named = first[1].lower(), set()
                    tag = ""
                    if before - after:
                        # the recorded finding: clean-up BY NAME removes an older table called like a unit of the
                        # failing source (or like the PROGRAM-less main program every failing source is also tried
                        # as); a table whose name does not occur in the failing source at all is a different
                        # (unrecorded) violation.  Attributing the removal to one particular unit of a mutated
                        # source proved unreliable (text heuristics), so that is no longer attempted.
                        tag = (":removed-preexisting-same-name"
                               if {x.strip().lower() for x in before - after} <= named | {own, "fparser2:main_program"}
                               else ":removed-unrelated-table")
                    if after - before:
                        # the recorded finding is about tables of units matched BEFORE the failing one; the failing
                        # unit's own table staying behind is a different violation - claimed only where the
                        # attribution cannot be wrong: the source names a single unit
                        tag += (":own-table-left" if own in (after - before) and len(named | {own}) == 1
                                else ":left-tables-of-earlier-units")
                failures.append(Result(False, "tables-changed-by-failed-parse%s" % tag, nontrivial, labels,
                                       {"step": i, "before": o["tables_before"], "after": o["tables_after"],
                                        "source": sources[op], "steps": steps}))
        if clean:
            f = fresh(o["std"], op, sources[op], keep)
            if not _same(o, f):
                prev = [s for s in steps[:i]]
                failures.append(Result(False, "differs-from-fresh:%s:%s->%s" % (op if op in SOURCES else "gen", f["kind"], o["kind"]),
                                       nontrivial, labels, {"step": i, "history": prev, "got": o.get("text", "")[:600],
                                                            "fresh": f.get("text", "")[:600]}))
        if o["kind"] == "tree":
            clean = False
    if failures:
        other = [f for f in failures if f.bucket.endswith(":own-table-left") or ":removed-unrelated-table" in f.bucket or
                 (not f.bucket.startswith("tables-changed-by-failed-parse:") and not f.bucket.endswith(":exit"))]
        return (other or failures)[0]
    return Result(True, None, nontrivial, labels)


def kf_match(entry, case, res):
    import re
    pat = entry.get("signature", {}).get("bucket_regex")
    return bool(pat and re.fullmatch(pat, res.bucket or ""))
