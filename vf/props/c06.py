"""C06: for any input, parsing ends in a tree or FortranSyntaxError."""
import os
import re
import json
from vf import gen, layout, progs
from vf.env import guarded_parse, VERIF_DIR
from vf.runner import Result

ID = "C06"
BUDGET = {"quick": 8000, "thorough": 150000}
WORK_BUDGET = 3_000_000
RULE = ("Domain A: valid programs from G (canonical or random free/fixed layout) hit by 1-3 mutations at character, "
        "token and line level (delete, duplicate, swap, replace by punctuation/keyword/quote/&/!/;/digit, truncate, "
        "splice two programs). Domain B: random token soup over the Fortran vocabulary. Domain C: files with "
        "invalid UTF-8 bytes inserted, read with FortranFileReader. x std x ignore_comments x {string,file} reader. "
        "Oracle: a tree whose str() returns, or FortranSyntaxError; any other exception, SystemExit, or exceeding "
        "a deterministic budget of 3e6 rule constructions is a failure, bucketed by (exception type, innermost "
        "fparser frame). Non-trivial = input differs from its origin and was accepted or rejected after line 1.")
MIN_NONTRIVIAL = 0.3
ASSUMPTIONS = ["work budget 3e6 Base.__new__ calls stands for 'a generous time bound' (valid programs of this size "
               "need < 5e4)"]

PUNCT = ["(", ")", ",", "'", '"', "&", "!", ";", ":", "=", "*", "/", "%", ".", "::", "=>", "**", "//", "(/", "/)",
         "[", "]", "<", ">", "-", "+", "0", "1", "9", "_", "$", "#", "?", "@", "\\", "\t", " "]
WORDS = ["end", "if", "then", "do", "else", "function", "subroutine", "contains", "program", "module", "integer",
         "real", "character", "type", "call", "where", "forall", "select", "case", "interface", "use", "implicit",
         "none", "data", "format", "print", "write", "read", "block", "enum", "include", "result", "bind",
         "while", "concurrent", ".true.", ".and.", ".not.", "1.0e-3", "'str'", "x", "a1", "10", "stop", "go to",
         "common", "namelist", "allocate", "associate", "critical", "submodule", "procedure", "generic", "final",
         "class", "elsewhere", "endif", "enddo", "len", "kind", "operator", "assignment", "only", "entry", "return",
         "2Hab", "1 2Habc", "3H", "read(formatted)", "write(unformatted)", "1pe12.4", "10 format(", "''", '""',
         "b'101'", "1.0d0", "_8", "%", "=>", "null()", "[", "(/"]


SPECIAL_LINES = [
    "include '../../include/model_physics_parameters_and_constants.inc'",
    'include "a_rather_long_directory_name/and_a_long_file_name_as_well.h"',
    "      include 'fixed_form_include_with_a_long_name_to_read.inc'",
    '#include "some/quite/long/path/to/a/header_file_name.h"',
    "#if defined(SOME_LONG_MACRO_NAME) && (ANOTHER_MACRO_NAME > 100) || !defined(THIRD)",
    "#define A_FUNCTION_LIKE_MACRO(first_arg, second_arg) ((first_arg) + (second_arg) * 2)",
    "#endif",
    "!$omp parallel do default(shared) private(i, j, a_long_private_variable_name) schedule(static)",
    "!$ call only_with_openmp(a_long_argument_name, another_long_argument_name_here)",
    "!dir$ ivdep",
]


def mutate(r, text):
    c = r.n(0, 16)
    n = len(text)
    if n < 2:
        return text + r.pick(PUNCT)
    lines = text.split("\n")
    if c >= 14:
        # edits aimed at one line: its last character, one of its quotes, or something appended to it
        i = r.n(0, len(lines) - 1)
        ln = lines[i]
        k = r.n(0, 3)
        if k == 0 and ln:
            ln = ln[:-1]
        elif k == 1 and ("'" in ln or '"' in ln):
            pos = [j for j, ch in enumerate(ln) if ch in "'\""]
            j = r.pick(pos)
            ln = ln[:j] + ("'" if ln[j] == '"' else '"') + ln[j + 1:]
        elif k == 2:
            ln = ln + " " + r.pick(WORDS + PUNCT)
        elif ln:
            ln = ln[1:]
        lines[i] = ln
        return "\n".join(lines)
    if c == 0:
        i = r.n(0, n - 1)
        return text[:i] + text[i + 1:]
    if c == 1:
        i = r.n(0, n - 1)
        return text[:i] + text[i] + text[i:]
    if c in (2, 3):
        i = r.n(0, n)
        return text[:i] + r.pick(PUNCT) + text[i:]
    if c == 4:
        i = r.n(0, n - 1)
        return text[:i] + r.pick(PUNCT) + text[i + 1:]
    if c == 5:
        i = r.n(0, n)
        return text[:i] + " " + r.pick(WORDS) + " " + text[i:]
    if c == 6:
        words = re.split(r"(\s+)", text)
        idx = [k for k, w in enumerate(words) if w.strip()]
        if len(idx) >= 2:
            a = r.n(0, len(idx) - 2)
            i, j = idx[a], idx[a + 1]
            words[i], words[j] = words[j], words[i]
        return "".join(words)
    if c == 7 and len(lines) > 1:
        i = r.n(0, len(lines) - 1)
        return "\n".join(lines[:i] + lines[i + 1:])
    if c == 8:
        i = r.n(0, len(lines) - 1)
        return "\n".join(lines[:i + 1] + lines[i:])
    if c == 9 and len(lines) > 2:
        i = r.n(0, len(lines) - 2)
        lines[i], lines[i + 1] = lines[i + 1], lines[i]
        return "\n".join(lines)
    if c == 10:
        return text[:r.n(0, n - 1)]
    if c == 11:
        words = re.split(r"(\s+)", text)
        idx = [k for k, w in enumerate(words) if w.strip()]
        if idx:
            words[r.pick(idx)] = r.pick(WORDS + PUNCT)
        return "".join(words)
    if c == 12:
        i = r.n(0, len(lines) - 1)
        lines[i] = r.pick(["", "end", "contains", "   &", "!", "10", "end if", ")", "x = (", "'", "a: ", "#if X",
                           "include 'x'", "end do nm", "else", "case default"])
        return "\n".join(lines)
    i = r.n(0, n - 1)
    j = min(n, i + r.n(1, 12))
    return text[:i] + text[j:]


_variants = [0]


def shard_extra():
    return {"statement_token_variants_checked": _variants[0]}


WRAPPERS = {
    "component": ("module w\ntype t\n", "\nend type t\nend module w\n"),
    "tb": ("module w\ntype t\ninteger :: i\ncontains\n", "\nend type t\nend module w\n"),
    "module": ("module w\n", "\nend module w\n"),
    "exec": ("subroutine w(a)\n", "\n10 continue\nend subroutine w\n"),
    "interface": ("module w\ninterface gen\n", "\nend interface gen\nend module w\n"),
    "unit": ("", "\nend\n"),
}


def _wrapper_for(st):
    k = st.kind
    if k in ("tb_proc", "tb_generic", "tb_final"):
        return "tb"
    if k in ("proc_comp",):
        return "component"
    if k in ("module_proc",):
        return "interface"
    if k in ("module", "submodule", "program", "subroutine", "function", "block_data"):
        return "unit"
    if k in ("attr", "type_decl", "use", "implicit", "import", "type_def", "enum", "enumerator", "interface"):
        return "module" if st.block is not None and st.block.kind == "module" else "exec"
    return "exec"


def token_variants(text, nofuse=False):
    """All single edits of a statement at token level: delete 1-3 adjacent tokens, duplicate a token,
    swap two adjacent tokens.  Yields (description, new text)."""
    from vf import lexer
    try:
        toks = lexer.lex_line(text)
    except lexer.LexError:
        return
    # recover offsets
    spans = []
    i = 0
    for k, t in toks:
        j = text.index(t, i)
        spans.append((j, j + len(t)))
        i = j + len(t)
    n = len(spans)
    for a in range(n):
        for k in (1, 2, 3):
            if a + k <= n:
                yield ("del%d@%d" % (k, a), text[:spans[a][0]] + text[spans[a + k - 1][1]:])
        yield ("dup@%d" % a, text[:spans[a][1]] + " " + text[spans[a][0]:])
        if a + 1 < n:
            yield ("swap@%d" % a, text[:spans[a][0]] + text[spans[a + 1][0]:spans[a + 1][1]] + " " +
                   text[spans[a][0]:spans[a][1]] + text[spans[a + 1][1]:])


def build(rnd, tier, flags):
    r = gen.R(rnd)
    dom = r.wpick([(6, "mutated"), (2, "soup"), (1, "bytes"), (1, "stmt")])
    if dom == "stmt":
        std = r.pick(["f2003", "f2008"])
        units, flat, g = progs.make_program(rnd, flags, f08=(std == "f2008"), max_units=1, max_stmts=3)
        picks = []
        for _ in range(min(4, len(flat))):
            st, d = flat[r.n(0, len(flat) - 1)]
            picks.append([_wrapper_for(st), gen.stmt_text(st)])
        return {"src": "", "stmts": picks, "std": std, "ignore_comments": True, "reader": "string",
                "meta": {"origin": "stmt", "differs": True}}, dict(g.excluded)
    std = r.pick(["f2003", "f2008"])
    meta = {"origin": dom}
    excl = {}
    if dom == "soup" and r.chance(8):
        # deep nesting: Python's recursion limit must not leak out as RecursionError
        n = r.pick([20, 35, 45, 80, 300])
        shapes_ = [("(", ")"), ("(a + ", ")"), ("[", "]"), ("(-", ")"), ("f(", ")")]
        if "no_deep_nested_refs" in flags:
            shapes_ = shapes_[:-1]
            excl["no_deep_nested_refs"] = 1
            n = n if n != 20 else 35
        o, c = r.pick(shapes_)
        if o == "f(":
            n = 18
        src = "subroutine s\nx = " + o * n + "a" + c * n + "\nend\n"
        meta["deep"] = n
        origin = None
    elif dom == "soup":
        toks = []
        for _ in range(r.n(1, 60)):
            k = r.n(0, 9)
            toks.append(r.pick(WORDS) if k < 6 else r.pick(PUNCT) if k < 9 else "\n")
            if r.chance(20):
                toks.append("\n")
        src = " ".join(toks)
        origin = None
    else:
        units, flat, g = progs.make_program(rnd, flags, f08=(std == "f2008" and r.chance(50)), max_units=2, max_stmts=4)
        excl = dict(g.excluded)
        lk = r.n(0, 3)
        if lk <= 1:
            origin = gen.canonical_source(flat, indent=r.chance(50))
        elif lk == 2:
            lo = layout.FreeOpts(cont=10, lit_break=20, comments=15, trailing=10, semis=10, indent=True, kwcase=True,
                                 cont_comments=20, names=gen.ALL_NAMES, excl=set(flags))
            origin = layout.free_layout(flat, rnd, lo).text
        else:
            fo = layout.FixedOpts(wrap=r.pick([72, 40]), comments=15, cont_comments=20, names=gen.ALL_NAMES,
                                  excl=set(flags))
            origin = layout.fixed_layout(flat, rnd, fo).text
        if r.chance(25):
            _, flat2, _ = progs.make_program(rnd, flags, f08=False, max_units=1, max_stmts=3)
            o2 = gen.canonical_source(flat2)
            a, b = origin.split("\n"), o2.split("\n")
            origin = "\n".join(a[:r.n(0, len(a))] + b[r.n(0, len(b) - 1):])
            meta["spliced"] = True
        if r.chance(30):
            # lines that are not statements: INCLUDE with long file names, cpp and OpenMP lines
            a = origin.split("\n")
            for _ in range(r.n(1, 2)):
                a.insert(r.n(0, len(a)), r.pick(SPECIAL_LINES))
            origin = "\n".join(a)
            meta["special_lines"] = True
        src = origin
        nm = r.n(1, 3)
        for _ in range(nm):
            src = mutate(r, src)
        meta["n_mut"] = nm
    case = {"src": src, "std": std, "ignore_comments": r.chance(60), "reader": r.pick(["string", "string", "file"]),
            "meta": meta}
    if dom == "bytes":
        raw = bytearray(src.encode("utf-8"))
        for _ in range(r.n(1, 4)):
            i = r.n(0, len(raw))
            raw[i:i] = bytes(r.pick([[0xff], [0xc3], [0x80], [0xe2, 0x28, 0xa1], [0xfe, 0xff], [0xc0, 0xaf], [0xf0, 0x9f]]))
        case["bytes_hex"] = bytes(raw).hex()
        case["reader"] = "file"
    meta["differs"] = origin is None or src != origin
    return case, excl


def _workfile(data):
    d = os.path.join(VERIF_DIR, ".work", str(os.getpid()))
    os.makedirs(d, exist_ok=True)
    p = os.path.join(d, "c06_input.f90")
    with open(p, "wb") as fh:
        fh.write(data)
    return p


def _evaluate_stmts(case):
    labels = ["origin=stmt", "std=" + case["std"]]
    for wname, text in case["stmts"]:
        pre, post = WRAPPERS[wname]
        for desc, new in token_variants(text):
            _variants[0] += 1
            o = guarded_parse(pre + new + post, std=case["std"], ignore_comments=True, want_str=True, budget=WORK_BUDGET,
                              reuse_parser=True)
            if o.kind in ("tree", "syntax"):
                continue
            if o.kind == "budget":
                b = "budget-exceeded"
            elif o.kind == "exit":
                b = "SystemExit:%s" % o.where
            else:
                b = "%s:%s" % (type(o.exc).__name__, o.where)
            return Result(False, b, True, labels, {"error": o.text, "statement": text, "edit": desc, "variant": new,
                                                    "wrapper": wname})
    return Result(True, None, True, labels)


def evaluate(case):
    meta = case.get("meta", {})
    if meta.get("origin") == "stmt":
        return _evaluate_stmts(case)
    labels = ["origin=" + meta.get("origin", "?"), "reader=" + case["reader"], "std=" + case["std"]]
    path = None
    src = case["src"]
    if case.get("bytes_hex") is not None:
        path = _workfile(bytes.fromhex(case["bytes_hex"]))
    elif case["reader"] == "file":
        path = _workfile(src.encode("utf-8"))
    try:
        o = guarded_parse(src, std=case["std"], ignore_comments=case["ignore_comments"], want_str=True,
                          budget=WORK_BUDGET, file_path=path, hang_limit=case.get("hang_limit", 90))
    finally:
        if path is not None:
            try:
                os.remove(path)
            except OSError:
                pass
    labels.append("outcome=" + o.kind)
    nontrivial = False
    if meta.get("differs", True):
        if o.kind == "tree":
            nontrivial = True
        elif o.kind == "syntax":
            ln, _ = progs.syntax_error_line(o.text)
            nontrivial = ln is None or ln > 1
    if o.kind in ("tree", "syntax"):
        return Result(True, None, nontrivial, labels)
    nested_refs = "+nested-refs" if re.search(r"(?:\w\(){12}", src.replace(" ", "")) else ""
    if o.kind == "budget":
        return Result(False, "budget-exceeded" + nested_refs, True, labels, {"budget": WORK_BUDGET})
    if o.kind == "hang":
        tag = "+placeholder-name" if re.search(r"F2PY_(EXPR_TUPLE|REAL_CONSTANT|STRING_CONSTANT)_\d", src) else nested_refs
        return Result(False, "hang:%s%s" % (o.where, tag), True, labels, {"error": o.text})
    if o.kind == "exit":
        return Result(False, "SystemExit:%s" % o.where, True, labels, {"error": o.text})
    if isinstance(o.exc, RecursionError):
        return Result(False, "RecursionError:%s" % ("deep-nesting" if meta.get("deep") or _max_depth(src) >= 30 else "other"),
                      True, labels, {"error": o.text, "nesting": _max_depth(src)})
    return Result(False, "%s:%s" % (type(o.exc).__name__, o.where), True, labels, {"error": o.text})


def _max_depth(src):
    best = d = 0
    for ch in src:
        if ch in "([":
            d += 1
            best = max(best, d)
        elif ch in ")]":
            d = max(0, d - 1)
        elif ch == "\n":
            d = 0
    return best


def kf_match(entry, case, res):
    pat = entry.get("signature", {}).get("bucket_regex")
    return bool(pat and re.fullmatch(pat, res.bucket or ""))


def extra_engine(tier, seed, flags, nproc):
    """Thorough tier only: coverage-guided campaigns with atheris/libFuzzer (second engine, DESIGN 5 C06 domain D).
    Returns a runner.Stats with the campaign's findings merged in, or None when atheris is unavailable."""
    if tier != "thorough":
        return None
    import subprocess
    import shutil
    import sys
    from vf.runner import Stats, Result
    deps = os.path.join(VERIF_DIR, ".deps")
    probe = subprocess.run([sys.executable, "-c", "import sys; sys.path.insert(0, %r); import atheris" % deps],
                           capture_output=True)
    st = Stats()
    if probe.returncode != 0:
        st.extra["atheris"] = "not importable: engine skipped"
        return st
    runs = int(os.environ.get("VERIF_FUZZ_RUNS", "20000"))
    base = os.path.join(VERIF_DIR, ".work", "fuzz_c06_%d" % os.getpid())
    shutil.rmtree(base, ignore_errors=True)
    procs = []
    for k in range(nproc):
        wd = os.path.join(base, "shard%02d" % k)
        os.makedirs(wd)
        kind = "seeded" if k % 2 == 0 else "empty"
        env = dict(os.environ, PYTHONHASHSEED="0")
        procs.append((k, kind, wd, subprocess.Popen([sys.executable, "-m", "vf.fuzz_c06", wd, str(runs), str(seed * 100 + k + 1), kind],
                                                    cwd=VERIF_DIR, env=env, stdout=subprocess.DEVNULL,
                                                    stderr=subprocess.DEVNULL)))
    execs = {"seeded": 0, "empty": 0}
    outcomes = {"tree": 0, "syntax": 0, "failures": 0}
    for k, kind, wd, p in procs:
        p.wait()
        try:
            with open(os.path.join(wd, "findings.json")) as fh:
                data = json.load(fh)
        except (OSError, ValueError):
            continue
        execs[kind] += data["stats"]["execs"]
        for o in outcomes:
            outcomes[o] += data["stats"].get(o, 0)
        for bucket, f in data["findings"].items():
            case = {"src": f["src"], "std": f["std"], "ignore_comments": f["ignore_comments"], "reader": "string",
                    "meta": {"origin": "atheris", "differs": True}}
            res = Result(False, bucket, True, ["origin=atheris"], {"error": f["error"]})
            for _ in range(max(1, f.get("count", 1))):
                st.record(case, res)
    st.evaluations = 0      # campaign executions are reported separately (atheris_execs_*), not as generated cases
    st.extra["atheris_execs_seeded_corpus"] = execs["seeded"]
    st.extra["atheris_execs_empty_corpus"] = execs["empty"]
    st.extra["atheris_outcomes"] = outcomes
    shutil.rmtree(base, ignore_errors=True)
    return st
