"""C10: the parse tree is a well-formed tree with consistent navigation."""
from vf import gen, layout, progs
from vf.env import guarded_parse, BlockBase
from vf.runner import Result
from vf.treeform import iter_nodes, class_names, kids
from vf.wellformed import check_tree

ID = "C10"
BUDGET = {"quick": 2400, "thorough": 40000}
RULE = ("Trees of programs from G (both standards; comments dropped / kept / directives processed; canonical lines or a "
        "free-form layout with ';'-joined and continued statements) and of the re-parse "
        "of their printed text. Per tree: no node object reached twice via content/items (lists and tuples "
        "unfolded); child.parent is the node holding it; root.parent is None and get_root() is the root from every "
        "node; walk(root) yields exactly the reached nodes, once each, in pre-order; the statement-level nodes in "
        "walk order print, line by line, the non-blank lines of str(root). Non-trivial = tree has >= 60 nodes and a "
        "node whose items nest a list/tuple or a labelled DO construct.")
MIN_NONTRIVIAL = 0.3
FOREIGN_EXCLUSIONS = ("no_defined_binop_before_dotted",)
ASSUMPTIONS = ["children are what Base.children exposes (content or items)"]


def build(rnd, tier, flags):
    units, flat, g = progs.make_program(rnd, flags)
    r = gen.R(rnd)
    meta = progs.meta_of(flat)
    std = "f2008" if (meta["f08"] or g.o.f08) else r.pick(["f2003", "f2008"])
    mode = r.pick(["drop", "keep", "directives"])
    if mode == "drop" and r.chance(50):
        src = gen.canonical_source(flat, indent=True)
    else:
        o = progs.comment_only_opts(gen.ALL_NAMES)
        o.directives = 40
        if mode == "drop":
            o.comments = o.trailing = 0
        # the reader's ways of handing statements over: ';'-joined lines, continuation lines
        o.semis = r.pick([0, 20, 70])
        o.cont = r.pick([0, 10])
        o.excl = set(flags)
        src = layout.free_layout(flat, rnd, o).text
    return {"src": src, "std": std, "mode": mode, "meta": meta}, progs.excluded_counts(g)


def _parse(src, std, mode):
    kw = {}
    if mode == "directives":
        kw["process_directives"] = True
    return guarded_parse(src, std=std, ignore_comments=(mode == "drop"), want_str=True, **kw)


def evaluate(case):
    labels = ["mode=" + case["mode"], "std=" + case["std"]]
    o = _parse(case["src"], case["std"], case["mode"])
    if o.kind != "tree":
        return Result(True, None, False, labels, precondition_failed=True)
    nodes = list(iter_nodes(o.tree))
    nested = any(isinstance(ch, (list, tuple)) for n in nodes if not isinstance(n, BlockBase) for ch in kids(n))
    labdo = any(type(n).__name__ in ("Block_Label_Do_Construct", "Action_Term_Do_Construct", "Outer_Shared_Do_Construct")
                for n in nodes)
    nontrivial = len(nodes) >= 60 and (nested or labdo)
    if nested:
        labels.append("nested-items")
    if labdo:
        labels.append("label-do")
    r = check_tree(o.tree)
    if r:
        return Result(False, r[0], nontrivial, labels, r[1], classes=class_names(o.tree))
    o2 = _parse(o.text, case["std"], case["mode"])
    if o2.kind == "tree":
        r = check_tree(o2.tree)
        if r:
            return Result(False, "reparse:" + r[0], nontrivial, labels, r[1])
    return Result(True, None, nontrivial, labels, classes=class_names(o.tree))
