"""C12 reader stream: every logical line once, in order, with label/name/span; get/put walks."""
from vf import gen, layout, progs, lexer
from vf.env import FortranStringReader
from vf.runner import Result
from fparser.common import readfortran as RF

ID = "C12"
BUDGET = {"quick": 4000, "thorough": 60000}
RULE = ("Statement lists from G (text only) laid out by the free-form engine (continuations, literal breaks, "
        "comments, ';' joins, labels, construct names) or the fixed-form engine. (a) list(reader) Line items == "
        "expected: text modulo blanks outside literals, label, construct name, span == physical lines of the "
        "logical line; comment items in order with their line numbers. (b) a drawn get/put walk (read k ahead, "
        "restore in reverse, repeat; <= 60 steps) against a list model: every get returns the model's item at the "
        "cursor and the same object on re-read; draining afterwards yields the rest of the fresh stream. "
        "Non-trivial = continuation with interleaved comment and a labelled or named statement, or a walk that "
        "puts back >= 3 items at once.")
MIN_NONTRIVIAL = 0.1
ASSUMPTIONS = ["layout engines report the physical line span of each logical line by construction"]


def _expected(flat, lay, fixed):
    out = []
    for st, _ in flat:
        out.append({"text": lexer.strip_blanks(st.src), "label": int(st.label) if st.label else None,
                    "name": st.cname, "span": list(lay.span[st.uid]), "kind": st.kind})
    return out


def build_include_case(rnd, tier, flags):
    """Statement list split into nested include files (C13's splitter); the reader must deliver the same
    stream, and get/put walks must leave it unchanged across include boundaries."""
    from vf.props import c13
    r = gen.R(rnd)
    for _ in range(4):
        case13, excl = c13.build(rnd, tier, flags)
        if not case13["missing"] and case13.get("files"):
            break
    else:
        return None
    walk = []
    depth = 0
    for _ in range(r.n(5, 60)):
        if depth and r.chance(45):
            k = r.n(1, depth)
            walk.append(["put", k])
            depth -= k
        else:
            k = r.n(1, 5)
            walk.append(["get", k])
            depth += k
    import re

    def body(ln):
        ln = re.sub(r"^\s*\d+\s+", "", ln)                       # statement label
        ln = re.sub(r"^\s*[A-Za-z_]\w*\s*:(?!:)\s*", "", ln)     # construct name
        return lexer.strip_blanks(ln)
    texts = [body(ln) for ln in case13["full"].split("\n") if ln.strip()]
    return {"include": {k: case13[k] for k in ("main", "files", "dir_order", "place", "decoys", "reader", "relative_dirs")},
            "texts": texts, "walk": walk, "fixed": False, "keep_comments": False,
            "meta": {"features": ["include"] + (["nested_include"] if case13["meta"].get("nested") else [])
                     + (["same_file_twice"] if case13["meta"].get("same_file_twice") else [])
                     + (["relative_include_dirs"] if case13.get("relative_dirs") else [])}}, excl


def build(rnd, tier, flags):
    r0 = gen.R(rnd)
    if r0.chance(20):
        c = build_include_case(rnd, tier, flags)
        if c is not None:
            return c
    units, flat, g = progs.make_program(rnd, flags, max_units=2)
    r = gen.R(rnd)
    fixed = r.chance(35)
    if fixed:
        fo = layout.FixedOpts(eol_variants=True, semis=r.pick([0, 0, 15, 70]), trail_blanks=r.pick([0, 0, 30]), wrap=r.pick([72, 60, 40, 25]), comments=r.pick([0, 25]), cont_comments=r.pick([0, 40]),
                              blank_lines=r.pick([0, 10]), extra_indent=r.chance(50), lit_cross=r.pick([0, 100]),
                              lit_pad=r.pick([0, 50]), names=gen.ALL_NAMES, excl=set(flags))
        lay = layout.fixed_layout(flat, rnd, fo)
    else:
        lo = layout.FreeOpts(eol_variants=True, trail_blanks=r.pick([0, 0, 25]), big_indent=r.pick([0, 0, 10]), cont=r.pick([5, 15, 25]), lead_amp=r.pick([0, 50, 100]), lit_break=r.pick([0, 40]),
                             comments=r.pick([0, 20]), trailing=r.pick([0, 15]), blank_lines=r.pick([0, 10]),
                             cont_comments=r.pick([0, 40]), semis=r.pick([0, 25, 80]), indent=True, blanks=r.chance(30),
                             names=gen.ALL_NAMES, excl=set(flags))
        lay = layout.free_layout(flat, rnd, lo)
    walk = []
    if r.chance(50):
        depth = 0
        for _ in range(r.n(5, 60)):
            if depth and r.chance(45):
                k = r.n(1, depth)
                walk.append(["put", k])
                depth -= k
            else:
                k = r.n(1, 5)
                walk.append(["get", k])
                depth += k
    case = {"src": lay.text, "fixed": fixed, "expected": _expected(flat, lay, fixed),
            "comments": [[ln, txt, kind] for ln, txt, kind in sorted(lay.comments)], "walk": walk,
            "keep_comments": r.chance(50), "meta": {"features": sorted(lay.features)}}
    # per-call override axis: the walking reader is created with the OPPOSITE comment default and every
    # get_item() passes ignore_comments explicitly (the documented per-call override of the default)
    case["override"] = bool(walk) and r.chance(40)
    return case, progs.excluded_counts(g, lay)


def _strip(text):
    try:
        return lexer.strip_blanks(text)
    except lexer.LexError:
        return "<unlexable>" + text        # observed output that cannot be lexed is a mismatch, not a harness error


def _describe(item):
    if isinstance(item, RF.Line):
        return {"text": _strip(item.line), "label": item.label, "name": item.name, "span": list(item.span)}
    return {"comment": getattr(item, "comment", None), "span": list(getattr(item, "span", ()) or ()),
            "cls": type(item).__name__}


def _evaluate_include(case):
    import os
    import shutil
    from vf.env import VERIF_DIR, FortranFileReader
    feats = set(case["meta"]["features"])
    inc = case["include"]
    walk = case["walk"]
    nontrivial = "nested_include" in feats or any(op == "put" and k >= 3 for op, k in walk)
    labels = ["f:" + f for f in feats] + ["walk"]
    wd = os.path.join(VERIF_DIR, ".work", "c12_%d" % os.getpid())
    cwd0 = os.getcwd()
    shutil.rmtree(wd, ignore_errors=True)
    try:
        dirs = [os.path.join(wd, "d%d" % k) for k in range(3)]
        for d in dirs:
            os.makedirs(d)
        search = [dirs[k] for k in inc["dir_order"]]
        for nm, text in inc["files"].items():
            pos = inc["place"][nm]
            with open(os.path.join(search[pos], nm), "w") as fh:
                fh.write(text)
            if inc.get("decoys"):
                for later in search[pos + 1:]:
                    with open(os.path.join(later, nm), "w") as fh:
                        fh.write("@@@ decoy: must not be read @@@\n")
        main_path = os.path.join(wd, "main.f90")
        with open(main_path, "w") as fh:
            fh.write(inc["main"])
        if inc.get("relative_dirs"):
            # everything named relative to the current directory for the rest of this case
            os.chdir(wd)
            search = [os.path.relpath(d, wd) for d in search]
            main_path = "main.f90"

        def mk():
            if inc["reader"] == "file":
                return FortranFileReader(main_path, include_dirs=search)
            return FortranStringReader(inc["main"], include_dirs=search)
        items = list(mk())
        got_texts = [_strip(it.line) for it in items if isinstance(it, RF.Line)]
        if got_texts != case["texts"]:
            i = next((k for k, (a, b) in enumerate(zip(got_texts, case["texts"])) if a != b), min(len(got_texts), len(case["texts"])))
            return Result(False, "include-stream-differs", nontrivial, labels,
                          {"index": i, "got": got_texts[i:i + 3], "expected": case["texts"][i:i + 3]})
        model = [_strip(getattr(x, "line", "")) for x in items]
        reader2 = mk()
        seen, cursor, taken = {}, 0, []
        for op, k in walk:
            if op == "get":
                for _ in range(k):
                    it = reader2.get_item()
                    if cursor >= len(model):
                        if it is not None:
                            return Result(False, "include-walk-item-after-end", nontrivial, labels, {})
                        continue
                    if it is None:
                        return Result(False, "include-walk-premature-end", nontrivial, labels, {"cursor": cursor})
                    if _strip(getattr(it, "line", "")) != model[cursor]:
                        return Result(False, "include-walk-wrong-item", nontrivial, labels,
                                      {"cursor": cursor, "expected": model[cursor], "got": _strip(getattr(it, "line", ""))})
                    if cursor in seen and seen[cursor] is not it:
                        return Result(False, "include-walk-reread-not-same-object", nontrivial, labels, {"cursor": cursor})
                    seen[cursor] = it
                    taken.append(it)
                    cursor += 1
            else:
                for _ in range(min(k, len(taken))):
                    reader2.put_item(taken.pop())
                    cursor -= 1
        rest = [_strip(getattr(x, "line", "")) for x in reader2]
        if rest != model[cursor:]:
            return Result(False, "include-walk-drain-differs", nontrivial, labels,
                          {"cursor": cursor, "expected": model[cursor:cursor + 4], "got": rest[:4]})
        return Result(True, None, nontrivial, labels)
    finally:
        os.chdir(cwd0)
        shutil.rmtree(wd, ignore_errors=True)


def evaluate(case):
    if case.get("include"):
        return _evaluate_include(case)
    feats = set(case.get("meta", {}).get("features", ()))
    exp = case["expected"]
    walk = case.get("walk") or []
    big_put = any(op == "put" and k >= 3 for op, k in walk)
    nontrivial = bool((("comment_in_cont" in feats or "blank_in_cont" in feats) and
                       any(e["label"] is not None or e["name"] for e in exp)) or big_put)
    labels = ["fixed" if case["fixed"] else "free"] + ["f:" + f for f in feats]
    if walk:
        labels.append("walk")
    keep = case.get("keep_comments", False)
    try:
        reader = FortranStringReader(case["src"], ignore_comments=not keep)
        items = list(reader)
    except (Exception, SystemExit) as e:  # noqa: BLE001 - reader.error() ends in sys.exit()
        return Result(False, "reader-exception:%s" % type(e).__name__, nontrivial, labels, {"error": str(e)[:300]})
    mode = reader.format.mode
    if (mode == "fix") != bool(case["fixed"]):
        return Result(True, None, False, labels, precondition_failed=True)
    lines = [it for it in items if isinstance(it, RF.Line)]
    for i, e in enumerate(exp):
        if i >= len(lines):
            return Result(False, "missing-item:" + e["kind"], nontrivial, labels, {"index": i, "expected": e})
        got = _describe(lines[i])
        for field in ("text", "label", "name", "span"):
            if got[field] != e[field]:
                tag = ""
                if (field == "text" and "blank_at_col72" in feats and
                        "".join(got["text"].split()) == "".join(e["text"].split())):
                    tag = "+col72blank"
                return Result(False, "%s-mismatch:%s%s" % (field, e["kind"], tag), nontrivial, labels,
                              {"index": i, "expected": e, "got": got,
                               "source_lines": case["src"].split("\n")[e["span"][0] - 1:e["span"][1]]})
    if len(lines) > len(exp):
        return Result(False, "extra-item", nontrivial, labels, {"got": _describe(lines[len(exp)])})
    if keep:
        got_c = [(c.span[0], c.comment.strip()) for c in items if isinstance(c, RF.Comment) and c.comment.strip()]
        exp_c = [(ln, txt.strip()) for ln, txt, _ in case["comments"] if txt.strip()]
        if sorted(got_c) != sorted(exp_c):
            miss = [c for c in exp_c if c not in got_c]
            extra = [c for c in got_c if c not in exp_c]
            return Result(False, "comment-set-mismatch", nontrivial, labels, {"missing": miss[:5], "extra": extra[:5]})
        # comments must be delivered in source order relative to each other
        order = [c[0] for c in got_c]
        if order != sorted(order):
            return Result(False, "comment-order", nontrivial, labels, {"order": order[:40]})
    # (b) walk against the list model
    if walk:
        # in fixed form the constructor default also decides how comment lines inside continued statements are
        # read (below the per-call level), so "keep comments by per-call override" is only demanded in free form
        override = bool(case.get("override")) and not (keep and case["fixed"])
        if override:
            labels.append("walk-override")
            reader2 = FortranStringReader(case["src"], ignore_comments=keep)
            _get = lambda: reader2.get_item(ignore_comments=not keep)  # noqa: E731
        else:
            reader2 = FortranStringReader(case["src"], ignore_comments=not keep)
            _get = reader2.get_item
        model = [_describe(x) for x in items]
        seen = {}
        cursor = 0
        taken = []
        for op, k in walk:
            if op == "get":
                for _ in range(k):
                    it = _get()
                    if cursor >= len(model):
                        if it is not None:
                            return Result(False, "walk-item-after-end", nontrivial, labels, {"got": _describe(it)})
                        continue
                    if it is None:
                        return Result(False, "walk-premature-end", nontrivial, labels, {"cursor": cursor})
                    if _describe(it) != model[cursor]:
                        return Result(False, "walk-wrong-item", nontrivial, labels,
                                      {"cursor": cursor, "expected": model[cursor], "got": _describe(it)})
                    if cursor in seen and seen[cursor] is not it:
                        return Result(False, "walk-reread-not-same-object", nontrivial, labels, {"cursor": cursor})
                    seen[cursor] = it
                    taken.append(it)
                    cursor += 1
            else:
                for _ in range(min(k, len(taken))):
                    reader2.put_item(taken.pop())
                    cursor -= 1
        if override:
            rest = []
            while True:
                it = _get()
                if it is None:
                    break
                rest.append(_describe(it))
        else:
            rest = [_describe(x) for x in reader2]
        if rest != model[cursor:]:
            return Result(False, "walk-drain-differs", nontrivial, labels,
                          {"cursor": cursor, "expected_len": len(model) - cursor, "got_len": len(rest)})
    return Result(True, None, nontrivial, labels)


def kf_match(entry, case, res):
    if entry.get("signature", {}).get("matcher") == "col72blank":
        return (res.bucket or "").endswith("+col72blank")
    return False
