"""C13: INCLUDE resolution is transparent; unresolved includes are kept as nodes."""
import os
import shutil
from vf import gen, progs
from vf.env import guarded_parse, VERIF_DIR, BlockBase, F03
from vf.runner import Result
from vf.compare import tree_diff
from vf.treeform import canon, iter_nodes, diff_bucket, class_names
from vf.normform import normal_form

ID = "C13"
BUDGET = {"quick": 2400, "thorough": 20000}
RULE = ("Programs from G; the statement list is split into a main text and <= 3 include files at statement "
        "boundaries (ranges may nest and may cut across construct and unit boundaries); files are written under "
        "three directories, include_dirs given in a drawn order with decoy files of the same name (garbage) in later "
        "directories; reader kind in {file, string}; INCLUDE line with either quote and any case. Oracle (found): "
        "tree(main+includes) == tree(P). Missing-file variant: whole sibling items of one body are replaced by an "
        "INCLUDE line, files absent: tree minus Include_Stmt nodes == N(tree(P minus ranges)), the Include_Stmt "
        "nodes carry the file names in order at the right slot, and str() re-emits INCLUDE '<name>'. Non-trivial = "
        "an include boundary falls inside a construct/unit (opener and END in different files) or includes nest.")
MIN_NONTRIVIAL = 0.2
FOREIGN_EXCLUSIONS = ("no_defined_binop_before_dotted",)
ASSUMPTIONS = ["every include file is laid out so that the documented detector sees free form (files are "
               "format-detected on their own)"]


def _inc_line(r, name):
    q = r.pick(["'", '"'])
    return r.pick(["include", "INCLUDE", "Include"]) + " " + q + name + q


def build(rnd, tier, flags):
    units, flat, g = progs.make_program(rnd, flags, max_units=2)
    r = gen.R(rnd)
    meta = progs.meta_of(flat)
    std = "f2008" if (meta["f08"] or g.o.f08) else r.pick(["f2003", "f2008"])
    n = len(flat)
    texts = [gen.stmt_text(st) for st, _ in flat]
    depth = [d for _, d in flat]
    missing = r.chance(35)
    labels_ = [st.label for st, _ in flat]
    roles_ = [st.role for st, _ in flat]
    twin = None
    if not missing and r.chance(30):
        # the same include file used twice: one simple statement is written twice in a row, each copy replaced by
        # an INCLUDE of the same file
        cand = [i for i, (st, d) in enumerate(flat) if st.kind in ("assign", "continue", "call", "print") and not st.label
                and st.role == "simple" and d >= 1 and i >= 1]
        if cand:
            i = r.pick(cand)
            for arr in (texts, depth, labels_, roles_):
                arr.insert(i + 1, arr[i])
            n += 1
            twin = i
    full = "\n".join(texts) + "\n"
    case = {"full": full, "std": std, "reader": r.pick(["string", "file"]), "meta": meta, "missing": missing,
            "relative_dirs": r.chance(30), "default_dirs": r.chance(20)}
    if twin is not None:
        meta["same_file_twice"] = True
    if not missing:
        # nested ranges over statement indices [a, b), never starting at 0 and with an unlabelled first statement
        def pick_range(lo, hi):
            if hi - lo < 1:
                return None
            a = r.n(lo, hi - 1)
            b = r.n(a + 1, hi)
            while a < b and labels_[a]:
                a += 1
            return (a, b) if a < b else None
        ranges = []
        r1 = pick_range(1, n) if twin is None else None
        if twin is not None:
            ranges = [(twin, twin + 1), (twin + 1, twin + 2)]
        if r1:
            ranges.append(r1)
            c = r.n(0, 2)
            if c == 1:                      # nested inside r1
                r2 = pick_range(r1[0] + 1, r1[1])
                if r2:
                    ranges.append(r2)
                    if r.chance(40):
                        r3 = pick_range(r2[0] + 1, r2[1])
                        if r3:
                            ranges.append(r3)
            elif c == 2:                    # a second, disjoint range after r1
                r2 = pick_range(r1[1], n)
                if r2:
                    ranges.append(r2)
        names = ["inc_a.inc", "part2.f90", "x3.h"] if twin is None else ["twice.inc", "twice.inc"]
        files = {}

        def render(a, b, level):
            """Lines of statements [a,b) with inner ranges replaced by include lines."""
            out = []
            i = a
            while i < b:
                inner = [(k, rg) for k, rg in enumerate(ranges) if rg[0] == i and rg[1] <= b and (rg != (a, b) or level == 0)
                         and k not in done]
                inner = [x for x in inner if x[1] != (a, b) or level == 0]
                if inner:
                    k, rg = max(inner, key=lambda x: x[1][1] - x[1][0])
                    done.add(k)
                    # lines start in column one or are indented: the form of an include file is that of its parent
                    files[names[k]] = "\n".join(ind_ + ln for ln in render(rg[0], rg[1], level + 1)) + "\n"
                    out.append(_inc_line(r, names[k]))
                    i = rg[1]
                else:
                    out.append(texts[i])
                    i += 1
            return out
        done = set()
        ind_ = r.pick(["", "", " ", "   "])
        main_lines = render(0, n, 0)
        if r.chance(20) and len(main_lines) >= 2:
            # an include file that contributes no statement at all
            main_lines.insert(r.n(1, len(main_lines)), _inc_line(r, "empty_c.inc"))
            files["empty_c.inc"] = r.pick(["", "! only a comment\n", "\n\n", "   \n! c\n"])
            meta["empty_include"] = True
        cross = any(min(depth[a:b]) < depth[a] or depth[b - 1] != depth[a] or
                    any(roles_[i] in ("open", "close", "mid") for i in (a, b - 1)) for a, b in ranges)
        order = [0, 1, 2]
        # shuffle directory order with the generator's randomness
        for i in range(2, 0, -1):
            j = r.n(0, i)
            order[i], order[j] = order[j], order[i]
        place = {nm: order[r.n(0, 2)] for nm in files}       # directory index (in search order position)
        case.update({"main": "\n".join(main_lines) + "\n", "files": files, "dir_order": order, "place": place,
                     "decoys": r.chance(60)})
        meta.update({"n_files": len(files), "nested": len(ranges) >= 2 and ranges[1][0] >= ranges[0][0] and ranges[1][1] <= ranges[0][1],
                     "cross": bool(cross)})
    else:
        # replace whole sibling items of one body by an INCLUDE line
        bodies = []
        for b, d in gen.blocks_of(units):
            for mid, body in b.segs:
                if len(body) >= 1 and not any(isinstance(it, gen.Block) and it.unit for it in body) and b.kind != "do_shared":
                    bodies.append(body)
        idx = {st.uid: i for i, (st, _) in enumerate(flat)}
        repl = []   # (first stmt index, last stmt index exclusive, name)
        used = set()
        for k in range(r.n(2, 5)):
            if not bodies:
                break
            body = r.pick(bodies)
            i = r.n(0, len(body) - 1)
            j = r.n(i, min(len(body) - 1, i + 2))
            if r.chance(65):
                # prefer a run that ends directly in front of a nested construct (the places where a rule that has to
                # look ahead pushes lines back)
                cand = [(bd, q) for bd in bodies for q in range(len(bd) - 1)
                        if isinstance(bd[q + 1], gen.Block) and not isinstance(bd[q], gen.Block)]
                if cand:
                    body, j = r.pick(cand)
                    i = r.n(max(0, j - 1), j)
                    if any(isinstance(it, gen.Block) for it in body[i:j + 1]):
                        i = j
            sub = gen.flatten(body[i:j + 1])
            a, bnd = idx[sub[0][0].uid], idx[sub[-1][0].uid] + 1
            if any(x in used for x in range(a, bnd)):
                continue
            if any(flat[x][0].kind in ("format",) for x in range(a, bnd)):
                continue
            used.update(range(a, bnd))
            repl.append((a, bnd, r.pick(["missing_%d.inc", "Missing_%d.INC", "Inc/LoopBody_%d.h", "missing_%d.inc"]) % k))
        repl.sort()
        main_lines, minus_lines, incs = [], [], []
        i = 0
        kept = 0
        while i < n:
            hit = [x for x in repl if x[0] == i]
            if hit:
                a, bnd, nm = hit[0]
                main_lines.append(_inc_line(r, nm))
                incs.append({"name": nm, "slot": kept})
                i = bnd
            else:
                main_lines.append(texts[i])
                minus_lines.append(texts[i])
                kept += 1
                i += 1
        case.update({"main": "\n".join(main_lines) + "\n", "minus": "\n".join(minus_lines) + "\n", "includes": incs})
        meta.update({"n_files": len(incs), "nested": False, "cross": False})
    return case, progs.excluded_counts(g)


def _workdir():
    d = os.path.join(VERIF_DIR, ".work", "c13_%d" % os.getpid())
    if os.path.isdir(d):
        shutil.rmtree(d)
    os.makedirs(d)
    return d


def evaluate(case):
    meta = case.get("meta", {})
    labels = ["reader=" + case["reader"], "missing" if case["missing"] else "found"]
    std = case["std"]
    o_full = guarded_parse(case["full"], std=std)
    if o_full.kind != "tree":
        return Result(True, None, False, labels, precondition_failed=True)
    wd = _workdir()
    try:
        dirs = [os.path.join(wd, "d%d" % k) for k in range(3)]
        for d in dirs:
            os.makedirs(d)
        if not case["missing"]:
            nontrivial = bool(meta.get("cross") or meta.get("nested")) and meta.get("n_files", 0) >= 1
            if meta.get("nested"):
                labels.append("nested")
            if meta.get("cross"):
                labels.append("cross-construct")
            if case.get("default_dirs"):
                # no include_dirs argument at all: a FortranFileReader searches the directory of its file.  Step 1: the
                # include files lie next to main.f90 in directory a/ -> the unsplit tree.  Step 2: the same main.f90
                # alone in directory b/ -> every INCLUDE line of main must stay unresolved (or the parse fails because
                # the text is no longer a program); nothing may be picked up from a/.
                labels.append("default-include-path")
                da, db = os.path.join(wd, "a"), os.path.join(wd, "b")
                os.makedirs(da)
                os.makedirs(db)
                for nm, text in case["files"].items():
                    with open(os.path.join(da, nm), "w") as fh:
                        fh.write(text)
                for d_ in (da, db):
                    with open(os.path.join(d_, "main.f90"), "w") as fh:
                        fh.write(case["main"])
                o = guarded_parse(case["main"], std=std, file_path=os.path.join(da, "main.f90"))
                if o.kind != "tree":
                    return Result(False, "default-path:reject:%s" % o.kind, nontrivial, labels, {"error": o.text})
                d = tree_diff(o_full.tree, o.tree)
                if d:
                    return Result(False, "default-path:tree:" + d[0], nontrivial, labels, {"main": case["main"][:1500]})
                o2 = guarded_parse(case["main"], std=std, file_path=os.path.join(db, "main.f90"))
                n_inc = sum(1 for ln in case["main"].split("\n") if ln.strip().lower().startswith("include"))
                if o2.kind == "tree":
                    got_inc = sum(1 for nd in iter_nodes(o2.tree) if isinstance(nd, F03.Include_Stmt))
                    if got_inc != n_inc:
                        return Result(False, "default-path:absent-file-resolved", nontrivial, labels,
                                      {"include_lines": n_inc, "include_nodes": got_inc})
                elif o2.kind not in ("syntax", "exit"):      # the torso may be rejected either way (exit: see C06)
                    return Result(False, "default-path:absent:%s" % o2.kind, nontrivial, labels, {"error": o2.text})
                return Result(True, None, nontrivial, labels, classes=class_names(o.tree))
            search = [dirs[k] for k in case["dir_order"]]
            for nm, text in case["files"].items():
                pos = case["place"][nm]
                with open(os.path.join(search[pos], nm), "w") as fh:
                    fh.write(text)
                if case.get("decoys"):
                    for later in search[pos + 1:]:
                        with open(os.path.join(later, nm), "w") as fh:
                            fh.write("@@@ decoy: must not be read @@@\n")
            path = None
            if case["reader"] == "file":
                path = os.path.join(wd, "main.f90")
                with open(path, "w") as fh:
                    fh.write(case["main"])
            if case.get("relative_dirs"):
                # include directories (and the main file) given relative to the current directory
                labels.append("relative-include-dirs")
                cwd = os.getcwd()
                os.chdir(wd)
                try:
                    o = guarded_parse(case["main"], std=std, file_path=("main.f90" if path else None),
                                      include_dirs=[os.path.relpath(d, wd) for d in search])
                finally:
                    os.chdir(cwd)
            else:
                o = guarded_parse(case["main"], std=std, file_path=path, include_dirs=search)
            if meta.get("same_file_twice"):
                labels.append("same-file-twice")
            if o.kind != "tree":
                return Result(False, "found:reject:%s%s" % (o.kind, ":nested" if meta.get("nested") else ""), nontrivial, labels,
                              {"error": o.text, "main": case["main"][:1500], "files": case["files"]})
            d = tree_diff(o_full.tree, o.tree)
            if d:
                return Result(False, "found:tree:" + d[0], nontrivial, labels, {"main": case["main"][:1500], "files": case["files"]})
            return Result(True, None, nontrivial, labels, classes=class_names(o.tree))
        # missing files
        incs = case["includes"]
        nontrivial = len(incs) >= 1 and meta.get("depth", 0) >= 2
        o_minus = guarded_parse(case["minus"], std=std)
        if o_minus.kind != "tree":
            return Result(True, None, False, labels, precondition_failed=True)
        path = None
        if case["reader"] == "file":
            path = os.path.join(wd, "main.f90")
            with open(path, "w") as fh:
                fh.write(case["main"])
        o = guarded_parse(case["main"], std=std, file_path=path, include_dirs=dirs, want_str=True)
        if o.kind != "tree":
            ln, q = progs.syntax_error_line(o.text)
            ctx = case["main"].split("\n")
            return Result(False, "missing:reject:%s" % o.kind, nontrivial, labels,
                          {"error": o.text, "context": ctx[max(0, (ln or 1) - 5):(ln or 1) + 2]})
        a = normal_form(canon(o_minus.tree))
        b = normal_form(canon(o.tree, drop={"Include_Stmt"}))
        if a != b:
            return Result(False, "missing:fortran-changed:" + diff_bucket(a, b), nontrivial, labels, {"main": case["main"][:1500]})
        got = []
        nstmt = 0
        for nd in iter_nodes(o.tree):
            if isinstance(nd, F03.Include_Stmt):
                got.append((str(nd.items[0]), nstmt))
            elif not isinstance(nd, BlockBase) and isinstance(nd.parent, BlockBase):
                nstmt += 1
        want = [(i["name"], i["slot"]) for i in incs]
        if got != want:
            return Result(False, "missing:include-nodes-differ", nontrivial, labels, {"got": got, "expected": want})
        printed = [ln.strip() for ln in o.text.split("\n") if ln.strip().upper().startswith("INCLUDE ")]
        if printed != ["INCLUDE '%s'" % i["name"] for i in incs]:
            return Result(False, "missing:printed-includes-differ", nontrivial, labels, {"printed": printed})
        return Result(True, None, nontrivial, labels, classes=class_names(o.tree))
    finally:
        shutil.rmtree(wd, ignore_errors=True)
