"""C05 fixed form: detected as fixed, parses like the free-form equivalent; free layouts detected as free."""
from vf import gen, layout, progs
from vf.env import guarded_parse, FortranStringReader
from vf.runner import Result
from vf.compare import tree_diff, name_spellings
from vf.treeform import class_names

ID = "C05"
BUDGET = {"quick": 2400, "thorough": 40000}
RULE = ("Programs from G rendered in fixed form (labels anywhere in columns 1-5, continuation mark drawn from 27 "
        "non-blank non-zero characters in column 6, wrap column 20..72, comment lines C/c/*/! and blank lines "
        "before statements and between continuation lines, literals crossing column 72) and in free form with "
        "the first statement in columns 1-5. Oracle: format.mode == 'fix' resp. 'free'; canon(parse(fixed)) == "
        "canon(parse(free canonical)). Non-trivial = a statement over >= 2 continuation lines with a comment "
        "between, or a literal crossing column 72, or a labelled statement with a construct name.")
MIN_NONTRIVIAL = 0.15
FOREIGN_EXCLUSIONS = ("no_defined_binop_before_dotted",)
ASSUMPTIONS = ["fixed-form chunks never end in a token-separating blank and literals are split only at column 72 "
               "(rules of fixed form, not of fparser)", "canonical free layout parses (C01)"]


def build(rnd, tier, flags):
    units, flat, g = progs.make_program(rnd, flags, max_units=2)
    r = gen.R(rnd)
    meta = progs.meta_of(flat)
    std = "f2008" if (meta["f08"] or g.o.f08) else r.pick(["f2003", "f2008"])
    fo = layout.FixedOpts(eol_variants=True, semis=r.pick([0, 0, 15, 70]), trail_blanks=r.pick([0, 0, 30]), wrap=r.pick([72, 72, 72, 60, 40, 30, 20]), comments=r.pick([0, 20]),
                          cont_comments=r.pick([0, 40]), blank_lines=r.pick([0, 10]), kwcase=r.chance(40),
                          extra_indent=r.chance(50), lit_cross=r.pick([0, 100]), lit_pad=r.pick([0, 40, 80]),
                          names=gen.ALL_NAMES,
                          excl=set(flags))
    lay = layout.fixed_layout(flat, rnd, fo)
    meta["features"] = sorted(lay.features)
    meta["wrap"] = fo.wrap
    lo = layout.FreeOpts(eol_variants=True, trail_blanks=r.pick([0, 0, 25]), cont=r.pick([0, 10]), comments=r.pick([0, 30]), blank_lines=r.pick([0, 20]), indent=True,
                         kwcase=r.chance(30), names=gen.ALL_NAMES, excl=set(flags))
    flay = layout.free_layout(flat, rnd, lo)
    case = {"free": gen.canonical_source(flat), "fixed": lay.text, "free_laid": flay.text, "std": std, "meta": meta,
            "groups": progs.groups_of(flat, lay, fixed=True), "via_file": r.chance(30)}
    return case, progs.excluded_counts(g, lay)


def evaluate(case):
    meta = case.get("meta", {})
    feats = set(meta.get("features", ()))
    nontrivial = bool(("cont2" in feats and "comment_in_cont" in feats) or "lit_cross_72" in feats
                      or "label_and_cname" in feats)
    labels = ["fixed:" + f for f in feats] + ["wrap=%s" % meta.get("wrap")]
    std = case["std"]
    vf_ = {"via_file": True} if case.get("via_file") else {}
    if vf_:
        labels.append("file-reader")       # scratch files are re-used with sources of either form
    o1 = guarded_parse(case["free"], std=std, **vf_)
    if o1.kind != "tree":
        return Result(True, None, False, labels, precondition_failed=True)
    if case.get("free_laid"):
        m = FortranStringReader(case["free_laid"]).format.mode
        if m != "free":
            return Result(False, "free-detected-as:%s" % m, nontrivial, labels, {"first_lines": case["free_laid"][:300]})
    mode = FortranStringReader(case["fixed"]).format.mode
    if mode != "fix":
        return Result(False, "fixed-detected-as:%s" % mode, nontrivial, labels, {"first_lines": case["fixed"][:400]})
    o2 = guarded_parse(case["fixed"], std=std, **vf_)
    if o2.kind != "tree":
        kinds, chunk = progs.isolate_group(case, lambda t: guarded_parse(t, std=std).kind != "tree", key="fixed")
        return Result(False, "reject:%s:%s" % (o2.kind, kinds), nontrivial, labels, {"error": o2.text, "culprit": chunk})
    d = tree_diff(o1.tree, o2.tree, names_lower=True)
    if d and d[0].startswith("case-only:"):
        d = None      # keywords re-cased by the layout itself (kwcase); names are compared with their case below
    if d is None:
        known = gen.ALL_NAMES
        n1 = [s for s in name_spellings(o1.tree) if s.lower() in known]
        n2 = [s for s in name_spellings(o2.tree) if s.lower() in known]
        if n1 != n2:
            k = next((i for i, (a, b) in enumerate(zip(n1, n2)) if a != b), min(len(n1), len(n2)))
            return Result(False, "name-spelling", nontrivial, labels,
                          {"free": n1[k:k + 3], "fixed": n2[k:k + 3]}, classes=class_names(o2.tree))
    if d:
        def differs(t):
            o = guarded_parse(t, std=std)
            dd = tree_diff(o1.tree, o.tree, names_lower=True) if o.kind == "tree" else None
            return dd is not None and not dd[0].startswith("case-only:")
        kinds, chunk = progs.isolate_group(case, differs, key="fixed")
        b = "tree:%s:%s" % (d[0], kinds)
        if "blank_at_col72" in feats and "Char_Literal_Constant" in d[0]:
            b += "+col72blank"
        return Result(False, b, nontrivial, labels, {"culprit": chunk}, classes=class_names(o2.tree))
    return Result(True, None, nontrivial, labels, classes=class_names(o2.tree))


def kf_match(entry, case, res):
    m = entry.get("signature", {}).get("matcher")
    if m == "col72blank":
        return (res.bucket or "").endswith("+col72blank")
    return False
