"""C04 free-form layout invariance."""
import itertools
from vf import gen, layout, progs, lexer
from vf.env import guarded_parse, FortranStringReader
from vf.runner import Result
from vf.compare import tree_diff, name_spellings
from vf.treeform import class_names

ID = "C04"
BUDGET = {"quick": 2400, "thorough": 40000}
RULE = ("Programs from G x free-form layouts (continuation at token boundaries with/without leading '&', breaks "
        "inside character literals incl. next to doubled quotes, blank/comment lines between continuation lines, "
        "trailing comments, indentation, ';' joins with labels/construct names, keyword and name case). Oracle: "
        "canon(parse(L(P))) == canon(parse(canonical(P))) up to name case, every Name keeps the spelling the "
        "layout gave it, the source is detected as free form. Exhaustive sub-space: for 24 small statements every "
        "subset of token gaps is broken x leading-& x comment-line choice, and every split position of every "
        "literal. Non-trivial = layout has a continuation and one of {literal break, comment in continuation, "
        "';' join, label/construct name on a joined statement}.")
EXHAUSTIVE_RULE = "per small statement: all subsets of token gaps x {lead &} x {comment line between}; all literal split positions"
MIN_NONTRIVIAL = 0.2
FOREIGN_EXCLUSIONS = ("no_defined_binop_before_dotted",)
ASSUMPTIONS = ["canonical layout of P parses (owned by C01; otherwise counted as a failed precondition)"]

SMALL = [
    ("x = a + b", None, None), ("call sub1(a, b)", None, None), ("if (a > b) x = 1", None, None),
    ("print *, 'it''s', x", None, None), ("write(6, '(a)') \"a!b\"", None, None), ("go to 10", None, None),
    ("c1 = 'ab' // \"c&d\"", None, None), ("do i = 1, n", "end do", None), ("if (l1) then", "end if", None),
    ("do i = 1, n", "end do nm", "nm"), ("integer, save :: i = 1", None, None), ("real(kind = 8) x", None, None),
    ("select case (i)", "end select", None), ("where (a > 0) a = 1.0e-3", None, None),
    ("allocate(arr(n), stat = ios)", None, None), ("x = f(a, -b) ** 2", None, None), ("stop 'done'", None, None),
    ("p => null()", None, None), ("data x / 1.0 /", None, None), ("read(5, *) a, b", None, None),
    ("x = (/ 1, 2 /)", None, None), ("l1 = a .and. .not. b", None, None), ("obj%v = arr(i)%w", None, None),
    ("forall (i = 1:n) a(i) = 0", None, None),
]


def _wrap(stmt_lines):
    return "subroutine s\n" + "\n".join(stmt_lines) + "\n10 continue\nend subroutine s\n"


def exhaustive(tier, flags):
    for si, (stmt, closer, cname) in enumerate(SMALL):
        st = gen.Stmt(stmt, "x")
        st.src = st.canon = stmt
        toks = [t for _, t in layout.stmt_tokens(st)]
        prefix = (cname + ": ") if cname else ""
        canonical = _wrap([prefix + stmt] + ([closer] if closer else []))
        n = len(toks)
        if n > 9 and tier == "quick":
            gaps_sets = [s for k in (1, 2, n - 1) for s in itertools.combinations(range(1, n), k)]
        elif n > 11:
            gaps_sets = [s for k in (1, 2, 3, n - 1) for s in itertools.combinations(range(1, n), k)]
        else:
            gaps_sets = [s for k in range(1, n) for s in itertools.combinations(range(1, n), k)]
        for gaps in gaps_sets:
            for lead, comm in ((False, False), (True, False), (True, True), (False, True)):
                lines = []
                cur = prefix + toks[0]
                for i in range(1, n):
                    sep = " " if layout.needs_space(toks[i - 1], toks[i]) else layout.default_gap(toks[i - 1], toks[i])
                    if i in gaps:
                        lines.append(cur + (sep or " ") + "&")
                        if comm:
                            lines.append("  ! c'omment &")
                        cur = ("   &" if lead else "   ") + toks[i]
                    else:
                        cur += sep + toks[i]
                lines.append(cur)
                laid = _wrap(lines + ([closer] if closer else []))
                yield {"canonical": canonical, "laid": laid, "std": "f2003", "names": {},
                       "meta": {"features": ["cont"] + (["lead_amp"] if lead else []) + (["comment_in_cont"] if comm else []),
                                "enum": si}}
        # literal splits
        for ti, t in enumerate(toks):
            if t[:1] in "'\"" and len(t) > 2:
                for p in range(1, len(t)):
                    pre = prefix + _join(toks[:ti])
                    post = _join(toks[ti + 1:])
                    gap1 = "" if not toks[:ti] else (" " if layout.needs_space(toks[ti - 1], t) else layout.default_gap(toks[ti - 1], t))
                    gap2 = "" if not toks[ti + 1:] else (" " if layout.needs_space(t, toks[ti + 1]) else layout.default_gap(t, toks[ti + 1]))
                    lines = [pre + gap1 + t[:p] + "&", "  &" + t[p:] + gap2 + post]
                    laid = _wrap(lines + ([closer] if closer else []))
                    yield {"canonical": canonical, "laid": laid, "std": "f2003", "names": {},
                           "meta": {"features": ["cont", "lit_break"], "enum": si}}


def _join(toks):
    out = ""
    for i, t in enumerate(toks):
        if i:
            out += " " if layout.needs_space(toks[i - 1], t) else layout.default_gap(toks[i - 1], t)
        out += t
    return out


def build(rnd, tier, flags):
    units, flat, g = progs.make_program(rnd, flags, max_units=2)
    r = gen.R(rnd)
    meta = progs.meta_of(flat)
    std = "f2008" if (meta["f08"] or g.o.f08) else r.pick(["f2003", "f2008"])
    lo = layout.FreeOpts(eol_variants=True, trail_blanks=r.pick([0, 0, 25]), big_indent=r.pick([0, 0, 10]), cont=r.pick([5, 12, 25]), lead_amp=r.pick([0, 50, 100]), lit_break=r.pick([0, 40]),
                         comments=r.pick([0, 15]), trailing=r.pick([0, 10]), blank_lines=r.pick([0, 10]),
                         cont_comments=r.pick([0, 30]), semis=r.pick([0, 20, 80]), indent=r.chance(70),
                         kwcase=r.chance(50), namecase=r.chance(40), blanks=r.chance(30),
                         names=gen.ALL_NAMES, excl=set(flags))
    lay = layout.free_layout(flat, rnd, lo)
    laid = lay.text
    if r.chance(15):
        # indentation axis "every line starts with a tab": the form is then recognised only through a trailing '&'
        # (sourceinfo.get_source_info_str), so the variant is built only when some code line ends in '&'
        ls = laid.split("\n")
        code = [x.rstrip() for x in ls if x.strip() and x.lstrip()[:1] not in "!#"]
        if (any(x.endswith("&") for x in code) and max(len(x) for x in ls) < 130
                and not any(x.lstrip()[:1] == "#" or "\r" in x or "\f" in x for x in ls)):
            laid = "\n".join(("\t" + x.lstrip(" ")) if x.strip() else x for x in ls)
            lay.features.add("tab_all")
    meta["features"] = sorted(lay.features)
    case = {"canonical": gen.canonical_source(flat), "laid": laid, "std": std,
            "names": lay.name_map if lo.namecase else {}, "meta": meta, "groups": progs.groups_of(flat, lay),
            "process_directives": False}   # process_directives forces comments to be kept (by design): not C04's configuration
    return case, progs.excluded_counts(g, lay)


def evaluate(case):
    meta = case.get("meta", {})
    feats = set(meta.get("features", ()))
    nontrivial = "cont" in feats and bool(feats & {"lit_break", "comment_in_cont", "blank_in_cont", "semi",
                                                    "semi_label_or_name", "comment_in_lit_cont", "trailing_on_cont"})
    labels = ["layout:" + f for f in feats]
    std = case["std"]
    _pd = {"process_directives": True} if case.get("process_directives") else {}
    o1 = guarded_parse(case["canonical"], std=std)
    if o1.kind != "tree":
        return Result(True, None, False, labels, precondition_failed=True)
    mode = FortranStringReader(case["laid"]).format.mode
    if mode != "free":
        return Result(False, "detected-as:" + str(mode), nontrivial, labels, {"mode": mode})
    o2 = guarded_parse(case["laid"], std=std, **_pd)
    if o2.kind != "tree":
        kinds, chunk = progs.isolate_group(case, lambda t: guarded_parse(t, std=std, **_pd).kind != "tree")
        return Result(False, "reject:%s:%s" % (o2.kind, kinds or meta.get("enum", "?")), nontrivial, labels,
                      {"error": o2.text, "culprit": chunk})
    d = tree_diff(o1.tree, o2.tree, names_lower=True)
    if d and d[0].startswith("case-only:"):
        d = None      # keywords / operators re-cased by the layout itself; the spelling of names is compared below
    if d:
        def differs(t):
            o = guarded_parse(t, std=std)
            dd = tree_diff(o1.tree, o.tree, names_lower=True) if o.kind == "tree" else None
            return dd is not None and not dd[0].startswith("case-only:")
        kinds, chunk = progs.isolate_group(case, differs)
        return Result(False, "tree:%s:%s" % (d[0], kinds or meta.get("enum", "?")), nontrivial, labels,
                      {"culprit": chunk, "printed_laid": str(o2.tree)[:2000]}, classes=class_names(o2.tree))
    names = case.get("names") or {}
    if names:
        for s in name_spellings(o2.tree):
            want = names.get(s.lower())
            if want is not None and want != s:
                return Result(False, "name-spelling", nontrivial, labels, {"name": s, "expected": want})
    return Result(True, None, nontrivial, labels, classes=class_names(o2.tree))
