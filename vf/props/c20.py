"""C20: parsing effort stays polynomial in nesting depth and program length."""
from vf import gen
from vf import env
from vf.runner import Result

ID = "C20"
BUDGET = {"quick": 160, "thorough": 1500}
CAP = 5_000_000
K = 2            # allowed degree: c(2n) <= 2^K * c(n) + C0
C0 = 3000
RULE = ("Fixed catalogue of size-indexed families (nested parentheses / sums / function references / subscripts / IF / "
        "IF-ELSE chains / block DO / shared-label DO / label-DO with CONTINUE / non-block DO distinct and shared "
        "terminals / SELECT CASE / WHERE / ASSOCIATE / BLOCK; n repeated statements, loops, units, actual arguments, "
        "operand chains per operator level, I/O / array-constructor / DATA implied-DO nests with one or several items per "
        "level) at sizes n and 2n, plus generated families: a drawn nest recipe (sequence of construct kinds, innermost "
        "statement, sibling statements per level), a drawn expression-wrapper recipe, a drawn sibling recipe or a drawn "
        "recipe of io-implied-do levels (items before/after the nested list, with/without stride) instantiated at depth "
        "n and 2n. Measure: "
        "deterministic count of Base.__new__ calls after create(). Oracle: c(2n) <= 4*c(n) + 3000 (degree 2, one factor "
        "of n of slack over the linear growth every well-behaved family shows); a parse aborted at 5e6 constructions "
        "counts as exceeding it. Non-trivial = instance with n >= 8.")
EXHAUSTIVE_RULE = "every catalogue family x every size pair of the tier"
MIN_NONTRIVIAL = 0.2
ASSUMPTIONS = ["rule-constructor count is the measure of work (regex back-tracking inside a single match is not counted)"]


def _nest(open_close, n, inner="x = 1"):
    lines = []
    for i in range(n):
        lines.append(open_close[0] % {"i": i + 1, "l": 10 * (i + 1)})
    lines.append(inner)
    for i in reversed(range(n)):
        c = open_close[1] % {"i": i + 1, "l": 10 * (i + 1)}
        if c:
            lines.append(c)
    return lines


_DECLS = []      # specification statements put in front of every family body while a case is evaluated


def _prog(lines):
    return "subroutine s\n" + "".join(d + "\n" for d in _DECLS) + "\n".join(lines) + "\nend subroutine s\n"


# specification-part contexts that must not change the growth of any family (they only fill the symbol table)
DECL_POOL = ["use limits_mod, only: big => max", "use m2, small => sin, only_real => real", "use m3", "implicit none",
             "use m4, only: f, t, s", "integer :: k, k0, k1, k2", "real, external :: ext_f"]
# (declarations or ONLY-imports of max/sin/... are left out: they turn the intrinsic nests into the user-function nests of
# the recorded finding C20-nested-references-exponential)


FAMILIES = {
    "nested_parens": lambda n: _prog(["x = " + "(" * n + "a" + ")" * n]),
    "nested_paren_sums": lambda n: _prog(["x = " + "(" * n + "a" + " + b)" * n]),
    "nested_function_refs": lambda n: _prog(["x = " + "f(" * n + "a" + ")" * n]),
    "nested_subscripts": lambda n: _prog(["x = " + "arr(" * n + "i" + ")" * n]),
    "nested_if": lambda n: _prog(_nest(("if (a%(i)d) then", "end if"), n)),
    "if_else_chain": lambda n: _prog(["if (a0) then", "x = 0"] + [s for i in range(n) for s in ("else if (a%d) then" % i, "x = %d" % i)] + ["end if"]),
    "nested_block_do": lambda n: _prog(_nest(("do i%(i)d = 1, 2", "end do"), n)),
    "shared_label_do": lambda n: _prog(["do 10 i%d = 1, 2" % i for i in range(n)] + ["x = 1", "10 continue"]),
    "label_do_continue": lambda n: _prog(_nest(("do %(l)d i%(i)d = 1, 2", "%(l)d continue"), n)),
    "label_do_enddo": lambda n: _prog(_nest(("do %(l)d i%(i)d = 1, 2", "%(l)d end do"), n)),
    "nonblock_do_distinct": lambda n: _prog(_nest(("do %(l)d i%(i)d = 1, 2", "%(l)d y%(i)d = 1"), n)),
    "nonblock_do_shared": lambda n: _prog(["do 10 i%d = 1, 2" % i for i in range(n)] + ["10 x = 1"]),
    "nested_select": lambda n: _prog([s for i in range(n) for s in ("select case (k%d)" % i, "case (1)")] + ["x = 1"] + ["end select"] * n),
    "nested_where": lambda n: _prog(_nest(("where (m%(i)d > 0)", "end where"), n, "a = 1")),
    "nested_associate": lambda n: _prog(_nest(("associate (z%(i)d => a)", "end associate"), n)),
    "nested_block": lambda n: _prog(_nest(("block", "end block"), n)),
    "nested_forall": lambda n: _prog(_nest(("forall (j%(i)d = 1:2)", "end forall"), n, "a(j1) = 1")),
    "repeat_statements": lambda n: _prog(["x%d = a + b * c" % i for i in range(4 * n)]),
    "repeat_loops": lambda n: _prog([s for i in range(n) for s in ("do i = 1, 2", "x = 1", "end do")]),
    "repeat_nonblock_do": lambda n: _prog([s for i in range(2 * n) for s in ("do %d i = 1, 2" % (10 * (i + 1)), "%d x%d = i" % (10 * (i + 1), i))]),
    "repeat_nonblock_do_with_body": lambda n: _prog([s for i in range(2 * n) for s in ("do %d i = 1, 2" % (10 * (i + 1)), "y = i", "%d x%d = i" % (10 * (i + 1), i))]),
    "repeat_label_do_continue": lambda n: _prog([s for i in range(2 * n) for s in ("do %d i = 1, 2" % (10 * (i + 1)), "x = i", "%d continue" % (10 * (i + 1)))]),
    "repeat_shared_label_do": lambda n: _prog([s for i in range(n) for s in ("do %d i = 1, 2" % (10 * (i + 1)), "do %d j = 1, 2" % (10 * (i + 1)), "x = i", "%d continue" % (10 * (i + 1)))]),
    "repeat_if_constructs": lambda n: _prog([s for i in range(2 * n) for s in ("if (a%d) then" % i, "x = %d" % i, "else", "x = 0", "end if")]),
    "repeat_select": lambda n: _prog([s for i in range(n) for s in ("select case (k%d)" % i, "case (1)", "x = 1", "case default", "x = 2", "end select")]),
    "repeat_where_forall": lambda n: _prog([s for i in range(n) for s in ("where (m > %d)" % i, "a = 1", "end where", "forall (j = 1:2)", "a(j) = 1", "end forall")]),
    "repeat_block_critical": lambda n: _prog([s for i in range(n) for s in ("block", "x = 1", "end block", "critical", "y = 1", "end critical")]),
    "repeat_derived_types": lambda n: "module m\n" + "".join("type t%d\ninteger :: i\nend type t%d\n" % (i, i) for i in range(n)) + "end module m\n",
    "repeat_interfaces": lambda n: "module m\n" + "".join("interface g%d\nmodule procedure p%d\nend interface g%d\n" % (i, i, i) for i in range(n)) + "end module m\n",
    "nonblock_do_in_each_unit": lambda n: "".join("subroutine s%d\ndo 10 i = 1, 2\n10 x = i\nend subroutine s%d\n" % (i, i) for i in range(n)),
    "repeat_if_stmts": lambda n: _prog(["if (a > %d) x = %d" % (i, i) for i in range(2 * n)]),
    "repeat_units": lambda n: "".join("subroutine s%d\nx = 1\nend subroutine s%d\n" % (i, i) for i in range(n)),
    "repeat_contained": lambda n: "module m\ncontains\n" + "".join("subroutine s%d\nx = 1\nend subroutine s%d\n" % (i, i) for i in range(n)) + "end module m\n",
    "many_arguments": lambda n: _prog(["call sub(" + ", ".join("a%d" % i for i in range(2 * n)) + ")"]),
    "many_decl_entities": lambda n: _prog(["real :: " + ", ".join("a%d(3)" % i for i in range(2 * n))]),
    "chain_plus": lambda n: _prog(["x = " + " + ".join("a%d" % i for i in range(2 * n))]),
    "chain_mult": lambda n: _prog(["x = " + " * ".join("a%d" % i for i in range(2 * n))]),
    "chain_power": lambda n: _prog(["x = " + " ** ".join("a%d" % i for i in range(n))]),
    "chain_concat": lambda n: _prog(["c = " + " // ".join("'s%d'" % i for i in range(2 * n))]),
    "chain_and": lambda n: _prog(["l = " + " .and. ".join("l%d" % i for i in range(2 * n))]),
    "chain_or_eqv": lambda n: _prog(["l = " + " .or. ".join("l%d .eqv. m%d" % (i, i) for i in range(n))]),
    "chain_defined_op": lambda n: _prog(["l = " + " .myop. ".join("l%d" % i for i in range(n))]),
    "chain_unary_not": lambda n: _prog(["l = " + ".not. (" * n + "a" + ")" * n]),
    "nested_unary_minus": lambda n: _prog(["x = " + "-(" * n + "a" + ")" * n]),
    "nested_unary_minus_mult": lambda n: _prog(["x = " + "(-a * " * n + "b" + ")" * n]),
    "nested_unary_plus_sum": lambda n: _prog(["x = " + "(+a + " * n + "b" + ")" * n]),
    "nested_unary_minus_paren_first": lambda n: _prog(["x = " + "(-(" * n + "a" + "))" * n]),
    "nested_defined_unary": lambda n: _prog(["x = " + ".inv. (" * n + "a" + ")" * n]),
    "nested_power_right": lambda n: _prog(["x = " + "a ** (" * n + "b" + ")" * n]),
    "nested_concat": lambda n: _prog(["c = " + "'s' // (" * n + "t" + ")" * n]),
    "nested_relational_and": lambda n: _prog(["l = " + "(a > 1 .and. " * n + "l0" + ")" * n]),
    "array_constructor_nest": lambda n: _prog(["x = " + "(/ " * n + "1" + " /)" * n]),
    "component_chain": lambda n: _prog(["x = " + "%".join("c%d(i)" % i for i in range(n))]),
    "format_groups": lambda n: _prog(["10 format(" + "2(" * n + "i2" + ")" * n + ")"]),
    "nested_derived_type_params": lambda n: _prog(["type(t(" * 1 + ", ".join("k%d = %d" % (i, i) for i in range(n)) + ")) :: x"]),
    "nested_f2008_intrinsic_refs": lambda n: _prog(["x = " + "gamma(erf(" * n + "a" + "))" * n]),
    "nested_and_not": lambda n: _prog(["l = " + "a .and. .not. (" * n + "z" + ")" * n]),
    "nested_or_not_relational": lambda n: _prog(["if (" + "i > 0 .or. .not. (" * n + "z" + ")" * n + ") x = 1"]),
    "nested_keyword_arg_refs": lambda n: _prog(["x = " + "f(k = " * n + "a" + ")" * n]),
    "nested_structure_constructors": lambda n: _prog(["x = " + "t(1, c = " * n + "a" + ")" * n]),
    "nested_component_procedure_refs": lambda n: _prog(["x = " + "obj%get(key = " * n + "a" + ")" * n]),
    "nested_substrings": lambda n: _prog(["c = " + "s(1)(" * n + "1" + ":2)" * n]),
    "nested_intrinsic_refs": lambda n: _prog(["x = " + "max(1, " * n + "a" + ")" * n]),
    # the same reference nests behind a specification part that fills the symbol table (USE with renames whose
    # module-side names are intrinsics, ONLY lists, wildcard USE, declarations)
    "nested_intrinsic_refs_in_context": lambda n: _prog(DECL_POOL + ["x = " + "max(1, " * n + "a" + ")" * n]),
    "nested_intrinsic_refs_in_context2": lambda n: _prog(DECL_POOL + ["x = " + "sin(real(" * n + "a" + "))" * n]),
    "nested_keyword_arg_refs_in_context": lambda n: _prog(DECL_POOL + ["x = " + "f(k = " * n + "a" + ")" * n]),
    "nested_parens_in_context": lambda n: _prog(DECL_POOL + ["x = " + "(" * n + "a" + " + b)" * n]),
    "io_implied_do_items": lambda n: _prog(["write(6, *) " + "(" * n + "a(i1)" + "".join(", b(i%d), i%d = 1, 2)" % (i, i) for i in range(n))]),
    "io_implied_do_items_first": lambda n: _prog(["read(5, *) " + "(b(i), " * n + "a(i1)" + "".join(", i%d = 1, 2)" % i for i in range(n))]),
    "ac_implied_do_nest": lambda n: _prog(["x = [" + "(" * n + "a(i1)" + "".join(", b, i%d = 1, 2)" % i for i in range(n)) + "]"]),
    "data_implied_do_nest": lambda n: _prog(["data " + "(" * n + "a(" + ", ".join("i%d" % i for i in range(n)) + ")" + "".join(", i%d = 1, 2)" % i for i in range(n)) + " / %d * 0 /" % 2 ** n]),
    "io_implied_do_nest": lambda n: _prog(["write(6, *) " + "(" * n + "a(i)" + "".join(", i%d = 1, 2)" % i for i in range(n))]),
}
F08_FAMILIES = {"nested_block", "repeat_block_critical", "nested_f2008_intrinsic_refs"}

KINDS = {
    "if": ("if (a%(i)d) then", "end if"),
    "do": ("do i%(i)d = 1, 2", "end do"),
    "dolab": ("do %(l)d i%(i)d = 1, 2", "%(l)d continue"),
    "select": ("select case (k%(i)d)\ncase (1)", "end select"),
    "assoc": ("associate (z%(i)d => a)", "end associate"),
    "block": ("block", "end block"),
    "named_do": ("n%(i)d: do i%(i)d = 1, 2", "end do n%(i)d"),
    "where": None,
}
INNER = ["x = 1", "call sub(a, b)", "x = f(a) + (b * c)", "if (a) x = 1", "print *, 'a', x", "10001 continue"]


# every wrapper yields a primary (it is parenthesised itself), so any composition is standard-conforming
EXPR_WRAPS = ["(-(%s))", "(-%s)", "((%s))", "(%s + b)", "(a * %s)", "(.inv. %s)", "(.not. %s)", "[%s]", "(/ %s /)",
              "(%s ** 2)", "(s // %s)", "[(%s, k = 1, 2)]", "(/ (%s, b, k = 1, 2) /)", "[(b, %s, k = 1, 2, 1)]", "(%s .and. l)", "(a == %s)", "(+%s - 1)", "(-a * %s)", "(1.0 * (%s))",
              "(-(-%s))" if False else "(- %s + 1)",
              # reference-shaped wrappers that are linear on the pinned tree (keyword arguments, intrinsic names,
              # component procedures, substrings); plain 'f(%s)' / 'arr(i, %s)' are the recorded exponential finding
              "(l .and. .not. %s)", "(l .or. .not. %s)", "(p .eqv. .not. %s)", "(i > 0 .and. .not. %s)", "(a - (-%s))",
              "(s // trim(%s))", "(x ** (-%s))",
              "f(k = %s)", "t(1, c = %s)", "a%%b(%s)", "obj%%get(key = %s)", "s(1)(%s:2)", "max(1, %s)", "sin(%s)",
              "real(%s, kind = 8)", "c(%s)%%d"]

# io-implied-do levels (R917) with further items before/after the nested list, with and without a stride
IO_WRAPS = ["(%s, i%(i)d = 1, 2)", "(%s, b(i%(i)d), i%(i)d = 1, 2)", "(b(i%(i)d), %s, i%(i)d = 1, 2)",
            "(%s, i%(i)d = 1, 6, 2)", "(c, %s, d(i%(i)d), i%(i)d = 1, n)", "(%s, b(i%(i)d), i%(i)d = 1, 4, 2)"]
IO_STMTS = ["write(6, *) %s", "print *, %s", "read(5, *) %s", "write(unit = 6, fmt = '(i2)') x, %s, y", "print '(i2)', %s"]

# wrappers that put the operand inside a user (non-intrinsic) reference; each alone is linear on the pinned tree, but a
# part-ref with a component (c(..)%d) around another user reference is parsed twice per level (Data_Ref, then Part_Ref)
USER_REF_WRAPS = {"c(%s)%%d", "a%%b(%s)", "obj%%get(key = %s)", "f(k = %s)", "t(1, c = %s)", "s(1)(%s:2)"}

SIB_KINDS = {
    "nonblock_do": ["do %(l)d i = 1, 2", "%(l)d x%(i)d = i"],
    "label_do": ["do %(l)d i = 1, 2", "x = i", "%(l)d continue"],
    "shared_do": ["do %(l)d i = 1, 2", "do %(l)d j = 1, 2", "x = i", "%(l)d continue"],
    "if": ["if (a%(i)d) then", "x = 1", "end if"],
    "do": ["do i = 1, 2", "x = 1", "end do"],
    "select": ["select case (k)", "case (%(i)d)", "x = 1", "end select"],
    "stmt": ["x%(i)d = f(a) + b"],
    "ifstmt": ["if (a > %(i)d) x = 1"],
}


def family_source(case, n):
    if case["family"] == "generated_expr":
        e = case["innermost"]
        for i in range(n):
            # a nested ac-implied-do must not re-use the do-variable of the enclosing one (C497): one name per level
            e = case["recipe"][i % len(case["recipe"])].replace(", k = ", ", k%d = " % i) % e
        return _prog([case["stmt"] % e])
    if case["family"] == "generated_io":
        e = case["innermost"]
        for i in range(n):
            e = case["recipe"][i % len(case["recipe"])].replace("%s", e).replace("%(i)d", str(i + 1))
        return _prog([case["stmt"] % e])
    if case["family"] == "generated_siblings":
        lines = []
        for i in range(n):
            for k in case["recipe"]:
                idx = len(lines)
                for ln in SIB_KINDS[k]:
                    lines.append(ln % {"i": i + 1, "l": 10 * (i + 1) + case["recipe"].index(k)})
        if case.get("wrap"):
            o, c = KINDS[case["wrap"]]
            lines = [(o % {"i": 0, "l": 5}).split("\n")[0]] + (o % {"i": 0, "l": 5}).split("\n")[1:] + lines + [c % {"i": 0, "l": 5}]
        return _prog(lines)
    if case["family"] != "generated":
        return FAMILIES[case["family"]](n)
    recipe, inner, sib = case["recipe"], case["inner"], case["siblings"]
    lines = []
    closers = []
    for i in range(n):
        k = recipe[i % len(recipe)]
        o, c = KINDS[k]
        for ln in (o % {"i": i + 1, "l": 10 * (i + 1)}).split("\n"):
            lines.append(ln)
        for s in range(sib):
            lines.append("y%d = %d" % (i, s))
        closers.append(c % {"i": i + 1, "l": 10 * (i + 1)})
    lines.append(inner)
    lines.extend(reversed(closers))
    return _prog(lines)


def sizes(tier):
    return [3, 4, 6] if tier == "quick" else [3, 4, 6, 8, 12]


def exhaustive(tier, flags):
    for fam in FAMILIES:
        if fam in ("nested_function_refs", "nonblock_do_distinct") and "no_exponential_families" in flags and False:
            continue
        # the standards alternate their order from family to family (both parsers live in one process)
        for std in (("f2008", "f2003") if len(fam) % 2 else ("f2003", "f2008")):
            if std == "f2003" and fam in F08_FAMILIES:
                continue
            for n in sizes(tier):
                yield {"family": fam, "n": n, "std": std}


def build(rnd, tier, flags):
    r = gen.R(rnd)
    if r.chance(35):
        recipe = [r.pick(EXPR_WRAPS) for _ in range(r.n(1, 3))]
        inner = r.pick(["a", "arr(i)", "1.0e-3", "x%y"])
        if inner == "1.0e-3" and recipe[0] in ("c(%s)%%d", "s(1)(%s:2)"):
            inner = "k"        # a real literal as subscript / substring bound of a data-ref is rejected by design
        return {"family": "generated_expr", "recipe": recipe, "innermost": inner,
                "decls": [r.pick(DECL_POOL) for _ in range(r.n(0, 2))] if r.chance(40) else [],
                "stmt": r.pick(["x = %s", "if (l) x = %s", "call sub(%s, 1)", "print *, %s", "x = arr(%s)"]),
                "n": r.pick(sizes(tier)), "std": r.pick(["f2003", "f2008"])}
    if r.chance(20):
        recipe = [r.pick(IO_WRAPS) for _ in range(r.n(1, 3))]
        return {"family": "generated_io", "recipe": recipe, "innermost": r.pick(["a(i1)", "a(i1, i2)", "x"]),
                "stmt": r.pick(IO_STMTS), "n": r.pick(sizes(tier)), "std": r.pick(["f2003", "f2008"])}
    if r.chance(50):
        ks = sorted(SIB_KINDS)
        recipe = []
        for _ in range(r.n(1, 3)):
            k = r.pick(ks)
            if k not in recipe:
                recipe.append(k)
        wrap = r.pick([None, None, "if", "do", "select", "block"])
        return {"family": "generated_siblings", "recipe": recipe, "wrap": wrap,
                "n": r.pick(sizes(tier)), "std": "f2008" if wrap == "block" else r.pick(["f2003", "f2008"])}
    recipe = [r.pick(["if", "do", "dolab", "select", "assoc", "block", "named_do"]) for _ in range(r.n(1, 4))]
    return {"family": "generated", "recipe": recipe, "inner": r.pick(INNER), "siblings": r.n(0, 2),
            "n": r.pick(sizes(tier)), "std": "f2008"}


def count(src, std):
    env.install_counter()
    env.ParserFactory().create(std=std)
    env.reset_counter(CAP)
    try:
        reader = env.FortranStringReader(src)
        env.F03.Program(reader)
        status = "ok"
    except env.BudgetExceeded:
        status = "capped"
    except env.FortranSyntaxError as e:
        status = "rejected"
    except SystemExit:
        status = "exit"
    except RecursionError:
        status = "recursion"
    except Exception as e:  # noqa: BLE001
        status = "error:" + type(e).__name__
    finally:
        c = env.get_count()
        env.reset_counter(None)
    return status, c


_counts = {}


def shard_extra():
    return {"work_counts": dict(_counts)}


def evaluate(case):
    _DECLS[:] = case.get("decls", [])
    try:
        return _evaluate(case)
    finally:
        _DECLS[:] = []


def _evaluate(case):
    n = case["n"]
    fam = case["family"]
    name = fam if not fam.startswith("generated") else {"generated": "gen:", "generated_siblings": "sib:", "generated_io": "io:",
                                                         "generated_expr": "expr:"}[fam] + "-".join(case["recipe"])
    labels = ["family=" + (fam if not fam.startswith("generated") else fam), "n=%d" % n, "std=" + case["std"]]
    s1, c1 = count(family_source(case, n), case["std"])
    s2, c2 = count(family_source(case, 2 * n), case["std"])
    if not fam.startswith("generated"):
        _counts["%s %s n=%d" % (fam, case["std"], n)] = c1
        _counts["%s %s n=%d" % (fam, case["std"], 2 * n)] = c2
    nontrivial = 2 * n >= 8
    if s1 in ("rejected", "exit") or s2 in ("rejected", "exit"):
        return Result(False, "family-rejected:%s" % name, nontrivial, labels, {"status": [s1, s2], "source": family_source(case, n)})
    if s1.startswith("error") or s2.startswith("error"):
        return Result(False, "family-raises:%s" % name, nontrivial, labels, {"status": [s1, s2]})
    if "recursion" in (s1, s2):
        # Python's stack limit, not the amount of work, ended the parse (the recorded C06 finding about deep nesting):
        # the pair of sizes says nothing about growth - counted as inconclusive, not as a violation
        return Result(True, None, False, labels + ["inconclusive:python-stack-limit"])
    if s2 == "capped" or c2 > (2 ** K) * c1 + C0:
        tag = ""
        if fam == "generated_expr" and sum(1 for w in set(case["recipe"]) if w in USER_REF_WRAPS) >= 2:
            tag = "+mixed-user-reference-nest"      # compositions of two reference-shaped wrappers: the recorded finding
        return Result(False, "superpolynomial:%s%s" % (name, tag), nontrivial, labels,
                      {"n": n, "c(n)": c1, "c(2n)": c2, "ratio": round(c2 / max(c1, 1), 2), "capped": s2 == "capped",
                       "source_n": family_source(case, n)[:800]})
    return Result(True, None, nontrivial, labels)


def kf_match(entry, case, res):
    import re
    pat = entry.get("signature", {}).get("bucket_regex")
    return bool(pat and re.fullmatch(pat, res.bucket or ""))
