"""Tree well-formedness invariants (C10), reusable on copies (C18)."""
import re
from vf.env import Base, BlockBase, walk
from vf.treeform import kids


def check_tree(root, check_text=True):
    """Return None if all invariants hold, else (bucket, detail)."""
    seen = {}
    order = []

    def visit(n, parent):
        if id(n) in seen:
            return ("node-reached-twice:%s" % type(n).__name__, {"node": str(n)[:100]})
        seen[id(n)] = n
        order.append(n)
        if n.parent is not parent:
            return ("wrong-parent:%s" % type(n).__name__,
                    {"node": str(n)[:100], "parent_is": type(n.parent).__name__, "expected": type(parent).__name__})
        return descend(kids(n), n)

    def descend(container, owner):
        for ch in container:
            if isinstance(ch, Base):
                r = visit(ch, owner)
                if r:
                    return r
            elif isinstance(ch, (list, tuple)):
                r = descend(ch, owner)
                if r:
                    return r
        return None

    r = visit(root, None)
    if r:
        return r
    for n in order:
        if n.get_root() is not root:
            return ("get_root-wrong:%s" % type(n).__name__, {"node": str(n)[:100]})
    walked = [n for n in walk(root) if isinstance(n, Base)]
    ids_w = [id(n) for n in walked]
    if len(set(ids_w)) != len(ids_w):
        return ("walk-yields-node-twice", {})
    if ids_w != [id(n) for n in order]:
        missing = [n for n in order if id(n) not in set(ids_w)]
        if missing:
            m = missing[0]
            return ("walk-misses:%s<-%s" % (type(m).__name__, type(m.parent).__name__),
                    {"missing": len(missing), "first": str(m)[:100]})
        extra = [n for n in walked if id(n) not in seen]
        if extra:
            return ("walk-yields-foreign-node:%s" % type(extra[0]).__name__, {})
        return ("walk-order-differs", {})
    if check_text:
        stmts = [n for n in order if not isinstance(n, BlockBase) and isinstance(n.parent, BlockBase)]
        got = []
        for n in stmts:
            try:
                t = n.tofortran()
            except Exception as e:  # noqa: BLE001
                return ("tofortran-raises:%s" % type(n).__name__, {"error": str(e)[:200]})
            for ln in str(t).split("\n"):
                ln = re.sub(r"\s+", " ", ln).strip()
                if ln:
                    got.append(ln)
        want = [re.sub(r"\s+", " ", ln).strip() for ln in str(root).split("\n") if ln.strip()]
        if got != want:
            i = next((k for k, (a, b) in enumerate(zip(got, want)) if a != b), min(len(got), len(want)))
            return ("statement-order-vs-text", {"index": i, "walk_stmt": got[i] if i < len(got) else None,
                                                "text_line": want[i] if i < len(want) else None})
    return None
