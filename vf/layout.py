"""Layout engines: IR statements -> free-form or fixed-form text, with the line map,
comment list and inserted lines known by construction."""
from vf import lexer
from vf.gen import R

COMMENT_POOL = [
    "! plain comment", "!", "! it's a \"quote\"", "! a & b", "! x = 1; y = 2", "!! double", "! 'unbalanced",
    "! trailing &", "!comment without blank", "! end if", "! call foo(1, 2)", "!$ x = hidden", "! (paren",
    # near misses of the directive sentinels: the sentinel is not at the start of the comment
    "!!dir$ ivdep", "!!gcc$ unroll 4", "!cdir$ nodep", "! cost in misc$units", "! see !$omp below", "!!$omp parallel",
    "! c$omp x", "!*$x", "! !dir$ simd",
    # characters that are line boundaries for str.splitlines() but not for a Fortran reader, and non-ASCII text
    "! page\x0cbreak", "! sep \u2028 inside", "! caf\u00e9 \x85 nel", "! vt\x0bhere",
]
DIRECTIVE_POOL = ["!$omp parallel do", "!$OMP END PARALLEL", "!dir$ ivdep", "!$acc loop", "!gcc$ unroll 4",
                  "!$omp barrier"]


def _format_tokens(text):
    """FORMAT statement: edit descriptors are single tokens."""
    out = []
    i, n = 0, len(text)
    while i < n:
        c = text[i]
        if c == " ":
            i += 1
        elif c in "'\"":
            j = lexer._string_end(text, i)
            out.append(("STR", text[i:j]))
            i = j
        elif c in "(),/:":
            out.append(("OP", c))
            i += 1
        else:
            j = i
            while j < n and text[j] not in " (),/:'\"":
                j += 1
            out.append(("WORD" if text[i].isalpha() else "FMT", text[i:j]))
            i = j
    return out


_ATOMIC = ("operator", "assignment")


def stmt_tokens(st, which="src"):
    """Token texts of a statement body (without label / construct name)."""
    text = st.src if which == "src" else st.canon
    if st.kind == "format":
        return _format_tokens(text)
    toks = lexer.lex_line(text)
    out = []
    i = 0
    n = len(toks)
    while i < n:
        k, t = toks[i]
        if k == "WORD" and t.lower() in _ATOMIC and i + 1 < n and toks[i + 1][1] == "(":
            # operator(<op>) / assignment(=) kept as one token
            j = i + 1
            while toks[j][1] != ")":
                j += 1
            out.append(("WORD", "".join(x[1] for x in toks[i:j + 1])))
            i = j + 1
            continue
        if k == "DOT" and t.lower() in (".true.", ".false.") and i + 2 < n and toks[i + 1][1] == "_":
            out.append(("DOT", t + "_" + toks[i + 2][1]))
            i += 3
            continue
        if not st.nofuse and i + 1 < n:
            t2 = toks[i + 1][1]
            if (t == "(" and t2 == "/") or (t == "/" and t2 == ")"):
                out.append(("OP", t + t2))
                i += 2
                continue
        out.append((k, t))
        i += 1
    return out


def needs_space(a, b):
    """Must a blank separate token texts a and b in free form?"""
    x, y = a[-1], b[0]
    ax = x.isalnum() or x == "_"
    by = y.isalnum() or y == "_"
    if ax and by:
        return True
    if x == "." and (by or y == "."):
        return True
    if ax and y == ".":
        # '1 .eq.' / 'a .and.' : keep digits and names apart from a leading dot
        return True
    if x in "'\"" and y in "'\"":
        return True
    if x == "*" and y == "*":
        return True
    if x == "/" and y in "/=)":
        return True
    if x == "(" and y == "/":
        return True
    if x in "<>=/" and y == "=":
        return True
    if x == "=" and y == ">":
        return True
    if x == ":" and y == ":":
        return True
    if x == "%" or y == "%":
        return False
    return False


class FreeOpts:
    def __init__(self, **kw):
        self.cont = 0            # percent chance of a continuation break at a token gap
        self.lead_amp = 50       # percent chance that a continuation line starts with '&'
        self.lit_break = 0       # percent chance (per literal) of a break inside a character literal
        self.comments = 0        # percent chance of a full-line comment before a statement
        self.trailing = 0        # percent chance of a trailing comment on a physical line
        self.blank_lines = 0     # percent chance of a blank line before a statement
        self.cont_comments = 0   # percent chance of comment/blank lines between continuation lines
        self.semis = 0           # percent chance of joining with the previous statement by ';'
        self.indent = False      # random indentation (first statement stays within columns 1-5)
        self.kwcase = False      # random keyword case
        self.namecase = False    # change the case of names (consistently per program)
        self.blanks = False      # vary blanks between tokens
        self.directives = 0      # percent of comments that are directive-shaped
        self.trail_blanks = 0    # percent of physical lines that get 1-8 trailing blanks (blank lines: blanks only)
        self.big_indent = 0      # percent of statements indented by 40-70 columns (line length stays <= 132)
        self.excl = set()
        self.eol_variants = False   # draw CR LF line ends / a missing final line terminator for .text
        self.names = None        # set of lower-case identifiers that are names (others = keywords)
        for k, v in kw.items():
            assert hasattr(self, k), k
            setattr(self, k, v)


class Layout:
    def __init__(self):
        self.lines = []
        self.span = {}           # uid -> (first, last) physical line numbers (1-based) of the logical line
        self.own = {}            # uid -> (first, last) physical lines on which the statement's own tokens sit
        self.comments = []       # (line, text, 'full'|'trailing')
        self.features = set()
        self.excluded = {}
        self.name_map = {}
        self.eol = "\n"          # line terminator of .text ('\r\n' when the engine draws it)
        self.final_nl = True     # whether .text ends with a line terminator

    @property
    def text(self):
        return self.eol.join(self.lines) + (self.eol if self.final_nl else "")


def gen_stmt_text(st):
    return (st.label + " " if st.label else "") + (st.cname + ": " if st.cname else "") + st.src


def _case_word(r, w, mode):
    if mode == 0:
        return w
    if mode == 1:
        return w.upper()
    if mode == 2:
        return w.lower()
    return w.capitalize()


def free_layout(flat, rnd, opts):
    """flat: [(Stmt, depth)].  Returns Layout."""
    r = R(rnd)
    lay = Layout()
    lines = lay.lines
    base_indent = r.n(0, 2) if opts.indent else 0
    step = r.n(0, 3) if opts.indent else 0
    name_mode = r.n(1, 3) if opts.namecase else 0   # 1 upper 2 lower 3 capitalize
    names = opts.names or set()
    cur = None          # current physical line under construction (string) or None
    group_first = None  # first physical line of the current logical line
    group_uids = []
    can_join = False
    first_stmt = True

    def comment_text():
        if opts.directives and r.chance(opts.directives):
            return r.pick(DIRECTIVE_POOL)
        return r.pick(COMMENT_POOL)

    def flush():
        nonlocal cur
        if cur is not None:
            lines.append(cur)
            cur = None

    def close_group():
        nonlocal group_uids, group_first
        flush()
        last = len(lines)
        for u in group_uids:
            lay.span[u] = (group_first, last)
        group_uids = []
        group_first = None

    def word(kind, t):
        if kind != "WORD":
            if kind in ("DOT",) and opts.kwcase:
                head, sep, kindp = t.partition("_")
                return _case_word(r, head, r.n(0, 2)) + sep + kindp
            if kind == "NUM" and opts.kwcase and r.chance(30):
                # exponent letter / kind are case-insensitive; keep kind names as they are
                return t
            return t
        if t.lower() in names:
            return _case_word(r, t, name_mode) if name_mode else t
        if opts.kwcase:
            return _case_word(r, t, r.n(0, 3))
        return t

    for st, depth in flat:
        toks = stmt_tokens(st)
        ind = base_indent + step * depth
        if first_stmt:
            # the detector must see free form on the first statement: start within columns 1-5,
            # and not with c/C/* in column 1
            ind = min(ind, 3)
            if ind == 0 and toks[0][1][:1] in "cC*" and not st.label:
                ind = 1
            if st.label:
                ind = 0 if False else min(ind, 2)
        join = (not first_stmt and can_join and opts.semis and r.chance(opts.semis)
                and st.role not in ("open", "close") or False)
        if join and st.block is not None and st.block.unit:
            join = False
        if (not first_stmt and opts.big_indent and r.chance(opts.big_indent)
                and len(gen_stmt_text(st)) + 72 <= 130):
            ind = r.n(40, 70)
            lay.features.add("big_indent")
        if not join:
            close_group()
            # lines before the statement
            if opts.blank_lines and r.chance(opts.blank_lines):
                lines.append("")
            if opts.comments and r.chance(opts.comments):
                for _ in range(r.n(1, 2)):
                    c = comment_text()
                    cind = r.n(0, 6) if opts.indent else 0
                    if first_stmt:
                        cind = min(cind, 4)
                    lines.append(" " * cind + c)
                    lay.comments.append((len(lines), c, "full"))
            cur = " " * ind
            group_first = len(lines) + 1
        else:
            sep = r.pick(["; ", ";", " ; ", ";  ", "; ", ";", ";; ", "; ; ", " ;;"])
            if ";" in sep.replace(";", "", 1):
                lay.features.add("semi_empty_statement")     # consecutive ';' are one separator (3.3.1.3)
            cur += sep
            lay.features.add("semi")
            if st.label or st.cname:
                lay.features.add("semi_label_or_name")
        group_uids.append(st.uid)
        own_first = len(lines) + 1
        pieces = []
        if st.label:
            pieces.append(("LABEL", st.label))
        if st.cname:
            pieces.append(("CNAME", st.cname))
            pieces.append(("CCOLON", ":"))
        pieces.extend(toks)
        prev = None
        trailing_possible = True
        for idx, (kind, t) in enumerate(pieces):
            txt = word(kind, t) if kind not in ("LABEL", "CNAME", "CCOLON") else (
                _case_word(r, t, name_mode) if kind == "CNAME" and name_mode else t)
            if kind == "CNAME":
                lay.name_map[t.lower()] = txt
            if kind == "WORD" and t.lower() in names:
                lay.name_map.setdefault(t.lower(), txt)
            if prev is not None:
                must = needs_space(prev[1], txt) or prev[0] == "LABEL"
                no_break = False
                if prev[0] == "CNAME" or (prev[0] == "CCOLON"):
                    # F-06: construct name separated from ':' (or ':' from the statement) by a continuation
                    if "no_construct_name_split" in opts.excl:
                        no_break = True
                if prev[0] == "LABEL":
                    no_break = True   # a label must be followed by the statement on the same line
                if (prev[1] == ")" and txt[:1].isalpha() and st.kind == "type_decl"
                        and "no_glued_decl_entity" in opts.excl):
                    must = True       # known finding: 'integer(4)x' (no '::', no blank) is rejected
                if opts.cont and not no_break and r.chance(opts.cont):
                    # continuation break in this gap
                    lay.features.add("cont")
                    cur += (" " if must else r.pick(["", " "])) + "&"
                    if opts.trailing and r.chance(opts.trailing):
                        c = comment_text()
                        cur += r.pick([" ", ""]) + c
                        lay.comments.append((len(lines) + 1, c, "trailing"))
                        lay.features.add("trailing_on_cont")
                    flush()
                    if opts.cont_comments and r.chance(opts.cont_comments):
                        for _ in range(r.n(1, 2)):
                            if r.chance(40):
                                lines.append("")
                                lay.features.add("blank_in_cont")
                            else:
                                c = comment_text()
                                lines.append(" " * (r.n(0, 6) if opts.indent else 0) + c)
                                lay.comments.append((len(lines), c, "full"))
                                lay.features.add("comment_in_cont")
                    cind = " " * (r.n(0, 8) if opts.indent else ind + 2)
                    if r.chance(opts.lead_amp):
                        cur = cind + "&" + (r.pick(["", " "]) if not must else r.pick(["", " "]))
                        lay.features.add("lead_amp")
                    else:
                        cur = cind if cind or not must else " "
                        if must and not cur.endswith(" "):
                            cur += " "
                else:
                    if must:
                        cur += " " if not opts.blanks else r.pick([" ", " ", "  "])
                    elif prev[0] == "CCOLON" or kind == "CCOLON":
                        cur += "" if kind == "CCOLON" and not opts.blanks else r.pick(["", " "]) if opts.blanks else (
                            "" if kind == "CCOLON" else " ")
                    else:
                        cur += default_gap(prev[1], txt) if not opts.blanks else r.pick(["", " ", " ", "  "])
            # the token itself, possibly broken inside a character literal
            if kind == "STR" and opts.lit_break and len(txt) >= 3 and r.chance(opts.lit_break):
                p = r.n(1, len(txt) - 1)
                if "no_literal_split" in opts.excl:
                    p = None
                if p is not None:
                    lay.features.add("lit_break")
                    body = txt[1:-1]
                    q = txt[0]
                    # classify a break adjacent to a doubled quote
                    if (txt[p - 1] == q and 1 < p) or (txt[p] == q and p < len(txt) - 1):
                        lay.features.add("lit_break_at_quote")
                    rest = txt
                    while True:
                        cur += rest[:p] + "&"
                        rest = rest[p:]
                        flush()
                        if opts.cont_comments and r.chance(opts.cont_comments):
                            c = comment_text()
                            lines.append(c)
                            lay.comments.append((len(lines), c, "full"))
                            lay.features.add("comment_in_lit_cont")
                        cur = " " * (r.n(0, 6) if opts.indent else 0) + "&"
                        # the rest of the literal may be broken again: inner lines then hold no quote at all
                        if len(rest) >= 3 and r.chance(45):
                            p = r.n(1, len(rest) - 2)
                            lay.features.add("lit_break_twice")
                            continue
                        cur += rest
                        break
                    del body
                else:
                    cur += txt
            else:
                cur += txt
            prev = (kind, txt)
        lay.own[st.uid] = (own_first, len(lines) + 1)
        # trailing comment after the statement (ends the physical line: no ';' join afterwards)
        can_join = True
        if opts.semis and r.chance(opts.semis // 3) and not (st.block is not None and st.block.unit
                                                             and st.role in ("open", "close")):
            cur += r.pick([";", " ;", ";;"])            # a ';' may also end the line
            lay.features.add("semi_at_end_of_line")
        if opts.trailing and trailing_possible and r.chance(opts.trailing):
            c = comment_text()
            cur += r.pick([" ", "  ", ""]) + c
            lay.comments.append((len(lines) + 1, c, "trailing"))
            lay.features.add("trailing")
            can_join = False
        if st.block is not None and st.block.unit and st.role in ("open", "close"):
            can_join = False
        first_stmt = False
    close_group()
    _trailing_blanks(r, lay, opts)
    return lay


def _trailing_blanks(r, lay, opts):
    if getattr(opts, "eol_variants", False):
        # file-level variants every reader must be indifferent to: CR LF line ends, no terminator after the last line
        lay.eol = r.pick(["\n", "\n", "\r\n"])
        lay.final_nl = not r.chance(25)
        if lay.eol != "\n":
            lay.features.add("crlf")
        if not lay.final_nl:
            lay.features.add("no_final_newline")
    if not getattr(opts, "trail_blanks", 0):
        return
    for i in range(len(lay.lines)):
        if r.chance(opts.trail_blanks):
            lay.lines[i] += " " * r.n(1, 8)
            lay.features.add("trailing_blanks")


def default_gap(a, b):
    """Canonical-ish spacing for readability."""
    if b in (",", ")", "(", ":", "%", "]") or a in ("(", "%", "[", ":"):
        return ""
    return " "


# --------------------------------------------------------------------------- fixed form

FIX_CONT_MARKS = list("123456789&$+*!abcxyzABC.#-=")
FIX_COMMENT_POOL = ["C plain comment", "c lower comment", "* star comment", "! bang comment", "C", "c it's",
                    "*     x = 1", "C     continue", "! a & b x", "c 'quote",
                    # column 1 makes these comments although they read like statements or words
                    "CALL BUMP(I)", "continue", "Common set-up for the loop", "Close the file here", "character of the data",
                    "complex part", "contains the main loop", "cycle counter", "case 1: nothing", "check this", "Cx", "c",
                    "*** banner ***", "common /blk/ x", "character(len = 3) :: c", "C page\x0cbreak", "c \u00e9t\u00e9 \u2028 x"]


class FixedOpts:
    def __init__(self, **kw):
        self.wrap = 72           # wrap column (20..72)
        self.comments = 0
        self.cont_comments = 0
        self.blank_lines = 0
        self.kwcase = False
        self.extra_indent = False
        self.lit_cross = 50      # percent: let literals cross column 72 when wrap == 72
        self.lit_pad = 0         # percent: pad before a literal so that it straddles column 72
        self.trail_blanks = 0    # percent of physical lines that get 1-8 trailing blanks (blank lines: blanks only)
        self.semis = 0           # percent chance of joining an unlabelled statement to the previous one by ';'
        self.allow_amp_end = False   # only when the caller sets the source form explicitly (a line ending in '&'
        #                              makes the auto-detector choose free form)
        self.excl = set()
        self.eol_variants = False
        self.names = None
        for k, v in kw.items():
            assert hasattr(self, k), k
            setattr(self, k, v)


def fixed_layout(flat, rnd, opts):
    r = R(rnd)
    lay = Layout()
    lines = lay.lines
    W = opts.wrap
    mark = r.pick(FIX_CONT_MARKS)
    names = opts.names or set()

    def comment():
        c = r.pick(FIX_COMMENT_POOL)
        lines.append(c)
        lay.comments.append((len(lines), c, "full"))

    cur = None            # physical line under construction (kept open for a possible ';' join)
    group = []            # uids of the statements sharing the current logical line
    group_first = None
    can_join = False

    def close_group():
        nonlocal cur, group, group_first
        if cur is not None:
            lines.append(cur)
            for u in group:
                lay.span[u] = (group_first, len(lines))
            cur, group, group_first = None, [], None

    for st, depth in flat:
        toks = stmt_tokens(st)
        unit_edge = st.block is not None and st.block.unit and st.role in ("open", "close")
        join = (cur is not None and can_join and opts.semis and not st.label and not unit_edge
                and r.chance(opts.semis))
        if join:
            sep = r.pick(["; ", ";", " ; ", ";;", "; "])
            if len(cur) + len(sep) + len(toks[0][1]) + (len(st.cname) + 3 if st.cname else 0) > W:
                join = False
        if join:
            cur += sep
            lay.features.add("semi")
        else:
            close_group()
            if opts.blank_lines and r.chance(opts.blank_lines):
                lines.append("")
            if opts.comments and r.chance(opts.comments):
                for _ in range(r.n(1, 2)):
                    comment()
            # label field
            if st.label:
                lab = st.label
                pad = 5 - len(lab)
                left = r.n(0, pad)
                field = " " * left + lab + " " * (pad - left)
                lay.features.add("label")
            else:
                field = "     "
            head = field + " "
            ind = (r.n(0, 4) if opts.extra_indent else 0)
            cur = head + " " * ind
            group_first = len(lines) + 1
        group.append(st.uid)
        own_first = len(lines) + 1
        can_join = not unit_edge
        if st.cname:
            cur += st.cname + r.pick([":", ": ", " : "])
            lay.features.add("cname")
            if st.label:
                lay.features.add("label_and_cname")
        nline = 0
        prev = None
        for kind, t in toks:
            txt = t
            if kind == "WORD" and opts.kwcase and t.lower() not in names:
                txt = _case_word(r, t, r.n(0, 3))
            gap = ""
            if prev is not None:
                gap = " " if needs_space(prev, txt) else default_gap(prev, txt)
            piece = gap + txt
            if (kind == "STR" and W == 72 and opts.lit_pad and len(txt) >= 3 and prev is not None
                    and len(cur) + len(gap) < 70 and r.chance(opts.lit_pad)):
                # pad with insignificant blanks so that the literal straddles column 72
                k = r.n(1, len(txt) - 1)
                padn = 72 - k - len(cur) - len(gap)
                if padn > 0 and needs_space(prev, txt) is not None:
                    gap = gap + " " * padn
                    piece = gap + txt
            if len(cur) + len(piece) <= W or prev is None:
                cur += piece
            else:
                room = 72 - len(cur) - len(gap)
                crossing = (kind == "STR" and W == 72 and room >= 2 and len(txt) - room >= 1
                            and r.chance(opts.lit_cross))
                if crossing and "no_blank_at_col72" in opts.excl and (gap + txt)[72 - len(cur) - 1].isspace():
                    lay.excluded["no_blank_at_col72"] = lay.excluded.get("no_blank_at_col72", 0) + 1
                    crossing = False
                if crossing and not opts.allow_amp_end and (cur + (gap + txt)[:72 - len(cur)]).rstrip().endswith("&"):
                    # a physical line ending in '&' makes the source look like free form: not generated
                    lay.excluded["no_fixed_line_ending_in_amp"] = lay.excluded.get("no_fixed_line_ending_in_amp", 0) + 1
                    crossing = False
                if crossing:
                    # fill the line to column 72 exactly; the literal continues on the next line
                    whole = gap + txt
                    k = 72 - len(cur)
                    cur += whole[:k]
                    rest = whole[k:]
                    assert len(cur) == 72
                    lay.features.add("lit_cross_72")
                    if whole[k - 1].isspace():      # blank, form feed, U+2028 ...: whatever str.rstrip() removes
                        lay.features.add("blank_at_col72")
                    lines.append(cur)
                    nline += 1
                    if opts.cont_comments and r.chance(opts.cont_comments):
                        comment()
                        lay.features.add("comment_in_cont")
                    cur = "     " + mark + rest
                else:
                    # wrap before this token; a separating blank goes to the start of the next chunk
                    lines.append(cur)
                    nline += 1
                    if opts.cont_comments and r.chance(opts.cont_comments):
                        if r.chance(30):
                            lines.append("")
                        else:
                            comment()
                        lay.features.add("comment_in_cont")
                    cur = "     " + mark + (" " * r.n(0, 3) if opts.extra_indent else "") + gap + txt
                    lay.features.add("cont")
                    if nline >= 2:
                        lay.features.add("cont2")
            prev = txt
        lay.own[st.uid] = (own_first, len(lines) + 1)
    close_group()
    _trailing_blanks(r, lay, opts)
    return lay
