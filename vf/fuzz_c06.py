#!/venv/bin/python
"""Coverage-guided engine for C06 (atheris / libFuzzer), used by the thorough tier.

One process = one libFuzzer campaign:  python -m vf.fuzz_c06 <workdir> <runs> <seed> <corpus:seeded|empty>
The oracle sits inside the target: tree (+str) or FortranSyntaxError is fine, anything else is recorded under its
bucket (first input per bucket is written to <workdir>/findings.json, which the parent merges).  The target never
raises, so the campaign continues behind the first finding.  All fparser global state that matters between
iterations is reset by ParserFactory().create() at the top of every iteration (guarded_parse does that).
"""
import os
import sys
import json

sys.path.insert(0, os.path.join(os.path.dirname(os.path.dirname(os.path.abspath(__file__))), ".deps"))
sys.path.insert(0, os.path.dirname(os.path.dirname(os.path.abspath(__file__))))


def main():
    workdir, runs, seed, corpus_kind = sys.argv[1], int(sys.argv[2]), int(sys.argv[3]), sys.argv[4]
    import atheris
    src_root = os.environ.get("FPARSER_SRC", "/repo/src")
    sys.path.insert(0, src_root)
    with atheris.instrument_imports(include=["fparser"]):
        import fparser  # noqa: F401
        import fparser.two.Fortran2003  # noqa: F401
        import fparser.two.Fortran2008  # noqa: F401
        import fparser.two.utils  # noqa: F401
        import fparser.common.readfortran  # noqa: F401
        import fparser.common.splitline  # noqa: F401
        import fparser.two.C99Preprocessor  # noqa: F401
    from vf import env
    from vf.props import c06

    corpus = os.path.join(workdir, "corpus")
    os.makedirs(corpus, exist_ok=True)
    if corpus_kind == "seeded":
        import random
        from vf import progs, gen
        for k in range(40):
            rnd = random.Random(seed * 1000 + k)
            units, flat, g = progs.make_program(rnd, ["no_defined_binop_before_dotted"], f08=(k % 2 == 0), max_units=1,
                                                max_stmts=3)
            with open(os.path.join(corpus, "seed%03d" % k), "w") as fh:
                fh.write(chr(48 + (k % 4)) + gen.canonical_source(flat))     # first byte selects std / comment mode
    findings = {}
    stats = {"execs": 0, "tree": 0, "syntax": 0, "failures": 0}
    out = os.path.join(workdir, "findings.json")

    def dump():
        with open(out + ".tmp", "w") as fh:
            json.dump({"stats": stats, "findings": findings}, fh)
        os.replace(out + ".tmp", out)

    def target(data):
        stats["execs"] += 1
        if len(data) < 2 or len(data) > 4000:
            return
        mode = data[0]
        text = data[1:].decode("utf-8", errors="replace")
        std = "f2008" if mode & 1 else "f2003"
        ign = bool(mode & 2)
        o = env.guarded_parse(text, std=std, ignore_comments=ign, want_str=True, budget=c06.WORK_BUDGET)
        if o.kind in ("tree", "syntax"):
            stats[o.kind] += 1
        else:
            stats["failures"] += 1
            if o.kind == "budget":
                b = "budget-exceeded"
            elif o.kind == "exit":
                b = "SystemExit:%s" % o.where
            else:
                b = "%s:%s" % (type(o.exc).__name__, o.where)
            f = findings.get(b)
            if f is None or len(text) < len(f["src"]):
                findings[b] = {"src": text, "std": std, "ignore_comments": ign, "error": o.text, "count": (f or {}).get("count", 0) + 1}
                dump()
            else:
                f["count"] += 1
        if stats["execs"] % 250 == 0:
            dump()

    dump()
    dict_path = os.path.join(workdir, "fortran.dict")
    with open(dict_path, "w") as fh:
        for w in c06.WORDS + ["::", "=>", "(/", "/)", "**", "//", ".eq.", "end do", "end if", "then", "&", ";", "!$omp", "#if"]:
            fh.write('"%s"\n' % w.replace("\\", "\\\\").replace('"', '\\"').replace("\n", "\\n"))
    argv = [sys.argv[0], corpus, "-runs=%d" % runs, "-seed=%d" % (seed or 1), "-max_len=2000", "-dict=" + dict_path,
            "-print_final_stats=0", "-verbosity=0", "-timeout=120"]
    atheris.Setup(argv, target)
    try:
        atheris.Fuzz()
    finally:
        dump()


if __name__ == "__main__":
    main()
