"""Expression trees, the reference precedence grammar (R701-R723) and renderers.

Tree nodes (plain tuples):
  ('atom', text)            primary other than a parenthesised expression
  ('par', X)                explicit parentheses
  ('un', op, X)             unary operator
  ('bin', op, L, R)         binary operator
Operators are written in lower case; dotted ones with their dots.
"""

# level numbering: expr=0, level5=1, equiv-operand=2, or-operand=3, and-operand=4,
# level4=5, level3=6, level2=7, add-operand=8, mult-operand=9, level1=10, primary=11
REL_OPS = ("==", "/=", "<", "<=", ">", ">=", ".eq.", ".ne.", ".lt.", ".le.", ".gt.", ".ge.")
INTRINSIC_DOTTED = {".eq.", ".ne.", ".lt.", ".le.", ".gt.", ".ge.", ".and.", ".or.", ".eqv.",
                    ".neqv.", ".not.", ".true.", ".false."}

# op -> (own level, min level left, min level right)
BIN = {
    "**": (9, 10, 9),
    "*": (8, 8, 9), "/": (8, 8, 9),
    "+": (7, 7, 8), "-": (7, 7, 8),
    "//": (6, 6, 7),
    ".and.": (3, 3, 4),
    ".or.": (2, 2, 3),
    ".eqv.": (1, 1, 2), ".neqv.": (1, 1, 2),
}
for _r in REL_OPS:
    BIN[_r] = (5, 6, 6)
# op -> (own level, min level operand)
UN = {"+": (7, 8), "-": (7, 8), ".not.": (4, 5)}


def is_defined_op(op):
    return op.startswith(".") and op.endswith(".") and op.lower() not in INTRINSIC_DOTTED


def bin_levels(op):
    o = op.lower()
    if o in BIN:
        return BIN[o]
    if is_defined_op(o):
        return (0, 0, 1)
    raise KeyError(op)


def un_levels(op):
    o = op.lower()
    if o in UN:
        return UN[o]
    if is_defined_op(o):
        return (10, 11)
    raise KeyError(op)


def level(e):
    k = e[0]
    if k in ("atom", "par"):
        return 11
    if k == "un":
        return un_levels(e[1])[0]
    return bin_levels(e[1])[0]


def minimal(e):
    """Insert ('par', .) exactly where the standard's grammar requires it."""
    k = e[0]
    if k == "atom":
        return e
    if k == "par":
        return ("par", minimal(e[1]))
    if k == "un":
        _, need = un_levels(e[1])
        x = minimal(e[2])
        if level(x) < need:
            x = ("par", x)
        return ("un", e[1], x)
    _, nl, nr = bin_levels(e[1])
    l, r = minimal(e[2]), minimal(e[3])
    if level(l) < nl:
        l = ("par", l)
    if level(r) < nr:
        r = ("par", r)
    return ("bin", e[1], l, r)


def render(e, sp=" "):
    """Text of a tree that already carries all the parentheses it needs."""
    k = e[0]
    if k == "atom":
        return e[1]
    if k == "par":
        return "(" + render(e[1], sp) + ")"
    if k == "un":
        op = e[1]
        s = render(e[2], sp)
        # a blank after a dotted unary operator; none needed after + -
        if op.startswith("."):
            return op + (sp or "") + s if not s.startswith(".") else op + " " + s
        return op + s
    l, r = render(e[2], sp), render(e[3], sp)
    op = e[1]
    a = b = sp
    # keep the text lexically unambiguous: digit. next to a dotted operator
    if op.startswith("."):
        if l[-1:].isdigit() or l.endswith("."):
            a = " "
        if r[:1].isdigit() or r.startswith("."):
            b = " "
    if op in ("+", "-") and r[:1] in "+-":
        b = " "
    if op == "/" and r.startswith("/"):
        b = " "
    if op == "/" and l.endswith("/"):
        a = " "
    if op == "*" and (r.startswith("*") or l.endswith("*")):
        a = b = " "
    return l + a + op + b + r


def fullparen(e):
    """Fully bracketed comparison form; explicit parentheses shown as [..]."""
    k = e[0]
    if k == "atom":
        return norm_atom(e[1])
    if k == "par":
        return "[" + fullparen(e[1]) + "]"
    if k == "un":
        return "(" + e[1].lower() + " " + fullparen(e[2]) + ")"
    return "(" + fullparen(e[2]) + " " + e[1].lower() + " " + fullparen(e[3]) + ")"


def norm_atom(text):
    """Atoms compared modulo blanks and case outside character literals."""
    out = []
    i, n = 0, len(text)
    while i < n:
        c = text[i]
        if c in "'\"":
            j = i + 1
            while j < n:
                if text[j] == c:
                    if j + 1 < n and text[j + 1] == c:
                        j += 2
                        continue
                    break
                j += 1
            out.append(text[i:j + 1])
            i = j + 1
            continue
        if c != " ":
            out.append(c.lower())
        i += 1
    return "".join(out)


def count_ops(e):
    k = e[0]
    if k == "atom":
        return 0
    if k == "par":
        return count_ops(e[1])
    if k == "un":
        return 1 + count_ops(e[2])
    return 1 + count_ops(e[2]) + count_ops(e[3])


def op_levels(e, acc=None):
    acc = [] if acc is None else acc
    k = e[0]
    if k == "par":
        op_levels(e[1], acc)
    elif k == "un":
        acc.append(un_levels(e[1])[0])
        op_levels(e[2], acc)
    elif k == "bin":
        acc.append(bin_levels(e[1])[0])
        op_levels(e[2], acc)
        op_levels(e[3], acc)
    return acc


# ---- second, table-free reference used only by the self-test -------------

def reparse_reference(text_tokens):
    """Recursive-descent parser straight from the standard's rules over a token
    list [(kind, text)] where kind in atom|op|lp|rp.  Used by selftest only."""
    pos = [0]
    toks = text_tokens

    def peek():
        return toks[pos[0]] if pos[0] < len(toks) else (None, None)

    def eat():
        t = toks[pos[0]]
        pos[0] += 1
        return t

    def primary():
        k, t = peek()
        if k == "lp":
            eat()
            x = expr()
            assert eat()[0] == "rp"
            return ("par", x)
        assert k == "atom", (k, t)
        eat()
        return ("atom", t)

    def level1():
        k, t = peek()
        if k == "op" and is_defined_op(t):
            eat()
            return ("un", t, primary())
        return primary()

    def mult_operand():
        l = level1()
        k, t = peek()
        if k == "op" and t == "**":
            eat()
            return ("bin", "**", l, mult_operand())
        return l

    def add_operand():
        l = mult_operand()
        while peek() in (("op", "*"), ("op", "/")):
            t = eat()[1]
            l = ("bin", t, l, mult_operand())
        return l

    def level2():
        if peek() in (("op", "+"), ("op", "-")):
            t = eat()[1]
            l = ("un", t, add_operand())
        else:
            l = add_operand()
        while peek() in (("op", "+"), ("op", "-")):
            t = eat()[1]
            l = ("bin", t, l, add_operand())
        return l

    def level3():
        l = level2()
        while peek() == ("op", "//"):
            eat()
            l = ("bin", "//", l, level2())
        return l

    def level4():
        l = level3()
        k, t = peek()
        if k == "op" and t in REL_OPS:
            eat()
            return ("bin", t, l, level3())
        return l

    def and_operand():
        if peek() == ("op", ".not."):
            eat()
            return ("un", ".not.", level4())
        return level4()

    def or_operand():
        l = and_operand()
        while peek() == ("op", ".and."):
            eat()
            l = ("bin", ".and.", l, and_operand())
        return l

    def equiv_operand():
        l = or_operand()
        while peek() == ("op", ".or."):
            eat()
            l = ("bin", ".or.", l, or_operand())
        return l

    def level5():
        l = equiv_operand()
        while peek() in (("op", ".eqv."), ("op", ".neqv.")):
            t = eat()[1]
            l = ("bin", t, l, equiv_operand())
        return l

    def expr():
        l = level5()
        while True:
            k, t = peek()
            if k == "op" and is_defined_op(t):
                eat()
                l = ("bin", t, l, level5())
            else:
                return l

    e = expr()
    assert pos[0] == len(toks), (pos[0], toks)
    return e


def to_tokens(e):
    """Token list of a tree that carries its parentheses (for reparse_reference)."""
    k = e[0]
    if k == "atom":
        return [("atom", e[1])]
    if k == "par":
        return [("lp", "(")] + to_tokens(e[1]) + [("rp", ")")]
    if k == "un":
        return [("op", e[1])] + to_tokens(e[2])
    return to_tokens(e[2]) + [("op", e[1])] + to_tokens(e[3])
