"""Common runner: tiers, sharding, Hypothesis driver, collect/shrink, replay,
known findings, evidence.

A property module provides
  ID, RULE, BUDGET={'quick': n, 'thorough': n}
  build(rnd, tier, flags) -> case            (JSON-serialisable dict; all randomness from rnd)
  evaluate(case) -> Result
  exhaustive(tier, flags) -> iterable of cases      (optional; finite sub-space)
  kf_match(entry, case, result) -> bool             (optional; default bucket regex)
  MIN_NONTRIVIAL = fraction floor                   (optional)
"""
import os
import sys
import json
import time
import glob
import hashlib
import importlib
import re
import shutil
import signal
import traceback
import multiprocessing as mp

VERIF = os.path.dirname(os.path.dirname(os.path.abspath(__file__)))
NPROC = int(os.environ.get("VERIF_NPROC", "16"))


class Result:
    __slots__ = ("ok", "bucket", "nontrivial", "labels", "detail", "precondition_failed", "classes")

    def __init__(self, ok=True, bucket=None, nontrivial=False, labels=(), detail=None,
                 precondition_failed=False, classes=()):
        self.ok = ok
        self.bucket = bucket
        self.nontrivial = nontrivial
        self.labels = tuple(labels)
        self.detail = detail or {}
        self.precondition_failed = precondition_failed
        self.classes = classes


def h64(obj):
    s = json.dumps(obj, sort_keys=True, default=str)
    return int.from_bytes(hashlib.blake2b(s.encode(), digest_size=8).digest(), "big")


def hash32(*parts):
    s = "|".join(str(p) for p in parts)
    return int.from_bytes(hashlib.blake2b(s.encode(), digest_size=4).digest(), "big")


def case_size(case):
    return len(json.dumps(case, default=str))


class Stats:
    def __init__(self):
        self.evaluations = 0
        self.nontrivial = set()
        self.labels = {}
        self.failures = {}      # bucket -> dict(case, detail, count, first)
        self.precond = 0
        self.samples = []
        self.classes = set()
        self.excluded = {}
        self.extra = {}

    def record(self, case, res, keep_samples=3):
        self.evaluations += 1
        for lab in res.labels:
            self.labels[lab] = self.labels.get(lab, 0) + 1
        if res.classes:
            self.classes.update(res.classes)
        if res.precondition_failed:
            self.precond += 1
            return
        if res.nontrivial:
            self.nontrivial.add(h64(case))
            if len(self.samples) < keep_samples:
                self.samples.append(case)
        if not res.ok:
            f = self.failures.get(res.bucket)
            if f is None:
                self.failures[res.bucket] = {"case": case, "detail": res.detail, "count": 1,
                                             "first": self.evaluations, "size": case_size(case)}
            else:
                f["count"] += 1
                sz = case_size(case)
                if sz < f["size"]:
                    f.update(case=case, detail=res.detail, size=sz)

    def merge(self, other):
        self.evaluations += other.evaluations
        self.nontrivial |= other.nontrivial
        for k, v in other.labels.items():
            self.labels[k] = self.labels.get(k, 0) + v
        for k, v in other.excluded.items():
            self.excluded[k] = self.excluded.get(k, 0) + v
        for b, f in other.failures.items():
            g = self.failures.get(b)
            if g is None:
                self.failures[b] = dict(f)
            else:
                g["count"] += f["count"]
                if f["size"] < g["size"]:
                    g.update(case=f["case"], detail=f["detail"], size=f["size"])
        self.precond += other.precond
        for s in other.samples:
            if len(self.samples) < 6:
                self.samples.append(s)
        self.classes |= other.classes
        for k, v in other.extra.items():
            if isinstance(v, (int, float)):
                self.extra[k] = self.extra.get(k, 0) + v
            elif isinstance(v, dict):
                d = self.extra.setdefault(k, {})
                for kk, vv in v.items():
                    d[kk] = d.get(kk, 0) + vv
            else:
                self.extra[k] = v


class HarnessError(Exception):
    pass


def load_module(pid):
    return importlib.import_module("vf.props.%s" % pid.lower())


# --------------------------------------------------------------- shard workers

def _hyp_shard(args):
    pid, tier, seed, shard, n_examples, flags, target_bucket, shrink_seconds = args
    try:
        import hypothesis
        from hypothesis import given, settings, HealthCheck, Phase, strategies as st
        mod = load_module(pid)
        stats = Stats()
        last_fail = {}

        class _Found(Exception):
            pass

        class _StopShrink(BaseException):
            pass

        deadline = [None]

        phases = [Phase.generate] if target_bucket is None else [Phase.generate, Phase.shrink]

        @hypothesis.seed(hash32(seed, pid, shard))
        @settings(max_examples=n_examples, database=None, deadline=None, derandomize=False,
                  report_multiple_bugs=False, suppress_health_check=list(HealthCheck), phases=phases)
        @given(st.randoms(use_true_random=False))
        def test(rnd):
            if deadline[0] is not None and time.time() > deadline[0]:
                raise _StopShrink()
            case = mod.build(rnd, tier, flags)
            if isinstance(case, tuple):
                case, excl = case
                for k, v in (excl or {}).items():
                    stats.excluded[k] = stats.excluded.get(k, 0) + v
            res = mod.evaluate(case)
            stats.record(case, res)
            if target_bucket is not None and not res.ok and res.bucket == target_bucket:
                if "case" not in last_fail or case_size(case) <= case_size(last_fail["case"]):
                    last_fail["case"] = case
                    last_fail["detail"] = res.detail
                if deadline[0] is None and shrink_seconds:
                    deadline[0] = time.time() + shrink_seconds
                raise _Found()

        try:
            test()
        except (_Found, _StopShrink):
            pass
        if hasattr(mod, "shard_extra"):
            stats.extra.update(mod.shard_extra())
        return ("ok", stats, last_fail)
    except BaseException:  # noqa: BLE001 - report harness errors to the parent
        return ("error", traceback.format_exc(), None)


def _exh_chunk(args):
    pid, tier, flags, lo, hi = args
    try:
        mod = load_module(pid)
        stats = Stats()
        for i, case in enumerate(mod.exhaustive(tier, flags)):
            if i < lo:
                continue
            if i >= hi:
                break
            res = mod.evaluate(case)
            stats.record(case, res)
        if hasattr(mod, "shard_extra"):
            stats.extra.update(mod.shard_extra())
        return ("ok", stats, None)
    except BaseException:  # noqa: BLE001
        return ("error", traceback.format_exc(), None)


# --------------------------------------------------------------- known findings

def load_known(pid):
    path = os.path.join(VERIF, "known_findings.json")
    if not os.path.exists(path):
        return []
    with open(path) as fh:
        data = json.load(fh)
    return [e for e in data.get("findings", []) if e.get("property") == pid]


def _sweep_work():
    """Remove scratch directories under .work/ whose owning process (pid in the name) no longer exists."""
    import re
    base = os.path.join(VERIF, ".work")
    try:
        names = os.listdir(base)
    except OSError:
        return
    for nm in names:
        m = re.search(r"(\d+)$", nm)
        if not m:
            continue
        try:
            os.kill(int(m.group(1)), 0)
        except ProcessLookupError:
            shutil.rmtree(os.path.join(base, nm), ignore_errors=True)
        except OSError:
            pass


def default_kf_match(entry, case, res):
    sig = entry.get("signature", {})
    pat = sig.get("bucket_regex")
    if pat is None:
        return False
    return res.bucket is not None and re.search(pat, res.bucket) is not None


# --------------------------------------------------------------- main driver

def run_check(pid, tier, seed, replay=None):
    t0 = time.time()
    mod = load_module(pid)
    kf_match = getattr(mod, "kf_match", default_kf_match)
    out_lines = []

    if replay is not None:
        with open(replay) as fh:
            rec = json.load(fh)
        res = mod.evaluate(rec["case"])
        print(json.dumps({"ok": res.ok, "bucket": res.bucket, "detail": res.detail}, indent=1, default=str))
        if not res.ok:
            print("VIOLATION property=%s replay=%s" % (pid, replay))
            return 1
        return 0

    # fresh directory for the violations of this run
    import shutil
    shutil.rmtree(os.path.join(VERIF, "found", pid), ignore_errors=True)
    _sweep_work()

    # 1. known findings: which are live?
    flags = set()
    live = []
    for e in load_known(pid):
        if e.get("status") != "open":
            continue
        with open(os.path.join(VERIF, e["replay"])) as fh:
            rec = json.load(fh)
        res = mod.evaluate(rec["case"])
        if not res.ok:
            live.append(e)
            print("KNOWN-FINDING: property=%s %s" % (pid, e["what"]))
            for f in e.get("exclusions", []):
                flags.add(f)
    # global exclusions required by findings owned by other properties (precondition, §2.5)
    for f in getattr(mod, "FOREIGN_EXCLUSIONS", ()):  # (flag, owner property, kf id)
        flags.add(f)
    flags = sorted(flags)

    total = Stats()
    violations = []   # (bucket, case, detail)

    # 2. regression replays
    replay_count = 0
    kf_replays = {e["replay"] for e in load_known(pid) if e.get("status") == "open"}
    for path in sorted(glob.glob(os.path.join(VERIF, "replays", pid, "*.json"))):
        rel = os.path.relpath(path, VERIF)
        if rel in kf_replays:
            continue
        with open(path) as fh:
            rec = json.load(fh)
        res = mod.evaluate(rec["case"])
        replay_count += 1
        if not res.ok:
            if any(kf_match(e, rec["case"], res) for e in live):
                continue
            print("VIOLATION property=%s replay=%s" % (pid, rel))
            violations.append((res.bucket, rec["case"], res.detail, rel))

    # 3. exhaustive sub-space
    exhaustive_n = 0
    pool = mp.get_context("fork").Pool(NPROC)
    try:
        if hasattr(mod, "exhaustive"):
            n_total = sum(1 for _ in mod.exhaustive(tier, flags))
            exhaustive_n = n_total
            chunk = max(1, (n_total + NPROC * 4 - 1) // (NPROC * 4))
            jobs = [(pid, tier, flags, lo, min(n_total, lo + chunk)) for lo in range(0, n_total, chunk)]
            for status, st_, _ in pool.imap_unordered(_exh_chunk, jobs):
                if status != "ok":
                    raise HarnessError(st_)
                total.merge(st_)

        # 4. random search through Hypothesis, sharded
        budget = mod.BUDGET[tier]
        if os.environ.get("VERIF_BUDGET_SCALE"):
            budget = max(16, int(budget * float(os.environ["VERIF_BUDGET_SCALE"])))
        nshards = min(NPROC, max(1, budget // 8)) if budget else 0
        shard_stats = {}
        if nshards:
            per = (budget + nshards - 1) // nshards
            jobs = [(pid, tier, seed, s, per, flags, None, None) for s in range(nshards)]
            for job, (status, st_, _) in zip(jobs, pool.map(_hyp_shard, jobs, chunksize=1)):
                if status != "ok":
                    raise HarnessError(st_)
                shard_stats[job[3]] = st_
                total.merge(st_)

        # 4b. optional second engine of the property (e.g. coverage-guided fuzzing for C06 thorough)
        if hasattr(mod, "extra_engine"):
            st_ = mod.extra_engine(tier, seed, flags, NPROC)
            if st_ is not None:
                total.merge(st_)

        # 5. classify failures
        kf_counts = {}
        new_buckets = []
        for bucket, f in sorted(total.failures.items(), key=lambda kv: str(kv[0])):
            matched = None
            fake = Result(ok=False, bucket=bucket, detail=f["detail"])
            for e in live:
                if kf_match(e, f["case"], fake):
                    matched = e
                    break
            if matched is not None:
                kf_counts[matched["id"]] = kf_counts.get(matched["id"], 0) + f["count"]
            else:
                new_buckets.append(bucket)

        # 6. shrink new buckets (Hypothesis shrink pass on the shard that saw it first), write replays
        shrink_budget = 30 if tier == "quick" else 200
        for nb, bucket in enumerate(new_buckets[:12]):
            f = total.failures[bucket]
            best_case, best_detail = f["case"], f["detail"]
            src_shard = None
            for s, st_ in shard_stats.items():
                if bucket in st_.failures:
                    if src_shard is None or st_.failures[bucket]["first"] < shard_stats[src_shard].failures[bucket]["first"]:
                        src_shard = s
            if src_shard is not None and nb < 3:
                per = (mod.BUDGET[tier] + nshards - 1) // nshards
                job = (pid, tier, seed, src_shard, per, flags, bucket, shrink_budget)
                status, st_, last = pool.apply(_hyp_shard, (job,))
                if status == "ok" and last and "case" in last:
                    if case_size(last["case"]) <= case_size(best_case):
                        best_case, best_detail = last["case"], last["detail"]
            name = "%s.json" % hashlib.blake2b(str(bucket).encode(), digest_size=6).hexdigest()
            rel = os.path.join("found", pid, name)
            os.makedirs(os.path.join(VERIF, "found", pid), exist_ok=True)
            with open(os.path.join(VERIF, rel), "w") as fh:
                json.dump({"property": pid, "bucket": bucket, "case": best_case, "detail": best_detail,
                           "seed": seed, "tier": tier}, fh, indent=1, default=str)
            print("VIOLATION property=%s replay=%s" % (pid, rel))
            print("  bucket: %s" % (bucket,))
            violations.append((bucket, best_case, best_detail, rel))
        for bucket in new_buckets[12:]:
            print("VIOLATION property=%s replay=(unshrunk) bucket=%s" % (pid, bucket))
            violations.append((bucket, total.failures[bucket]["case"], total.failures[bucket]["detail"], None))
    finally:
        pool.terminate()
        pool.join()

    # 7. vacuity guard
    harness_problem = None
    if total.evaluations == 0:
        harness_problem = "no cases evaluated"
    else:
        pf = total.precond / total.evaluations
        max_pf = getattr(mod, "MAX_PRECOND_FRACTION", 0.02)
        if pf > max_pf:
            harness_problem = "precondition discarded %.1f%% of cases (>%.0f%%)" % (100 * pf, 100 * max_pf)
        floor = getattr(mod, "MIN_NONTRIVIAL", 0.05)
        if len(total.nontrivial) < floor * total.evaluations or len(total.nontrivial) < 2:
            harness_problem = "non-trivial fraction %.3f below floor %.3f" % (
                len(total.nontrivial) / total.evaluations, floor)

    # 8. evidence
    wall = time.time() - t0
    coverage = {
        "evaluations": total.evaluations,
        "distinct_nontrivial": len(total.nontrivial),
        "rule": mod.RULE,
        "samples": [trim_sample(s) for s in total.samples[:4]],
        "exhaustive_subspace_cases": exhaustive_n,
        "exhaustive": bool(exhaustive_n and not mod.BUDGET[tier]),
        "random_cases_budget": mod.BUDGET[tier],
        "replays_rerun": replay_count,
        "class_distribution": dict(sorted(total.labels.items())),
        "precondition_discards": total.precond,
        "known_findings_live": [e["id"] for e in live],
        "known_finding_hits": kf_counts,
        "excluded_by_construction": total.excluded,
        "exclusion_flags": flags,
        "failure_buckets": {str(b): f["count"] for b, f in total.failures.items()},
        "fparser_node_classes_seen": len(total.classes),
    }
    if hasattr(mod, "EXHAUSTIVE_RULE"):
        coverage["exhaustive_rule"] = mod.EXHAUSTIVE_RULE
    for k, v in total.extra.items():
        coverage[k] = v
    if hasattr(mod, "finish_evidence"):
        mod.finish_evidence(coverage, total)
    ev = {
        "property_id": pid, "tier": tier, "seed": seed, "level": "exploration",
        "coverage": coverage,
        "assumptions": getattr(mod, "ASSUMPTIONS", []),
        "wall_s": round(wall, 2),
        "violations": len(violations),
    }
    os.makedirs(os.path.join(VERIF, "evidence"), exist_ok=True)
    with open(os.path.join(VERIF, "evidence", "%s.json" % pid), "w") as fh:
        json.dump(ev, fh, indent=1, default=str)

    print("%s tier=%s seed=%d evaluations=%d nontrivial=%d kf_hits=%s violations=%d wall=%.1fs" % (
        pid, tier, seed, total.evaluations, len(total.nontrivial), kf_counts, len(violations), wall))
    if violations:
        return 1
    if harness_problem:
        sys.stderr.write("HARNESS: %s: %s\n" % (pid, harness_problem))
        return 2
    return 0


def trim_sample(case, limit=1500):
    def t(x):
        if isinstance(x, str) and len(x) > limit:
            return x[:limit] + "...[%d chars]" % len(x)
        if isinstance(x, dict):
            return {k: t(v) for k, v in x.items()}
        if isinstance(x, list):
            return [t(v) for v in x[:40]]
        return x
    return t(case)


def main(argv=None):
    import argparse
    ap = argparse.ArgumentParser()
    ap.add_argument("property")
    ap.add_argument("--tier", default=os.environ.get("VERIF_TIER", "quick"), choices=["quick", "thorough"])
    ap.add_argument("--replay", default=None)
    ap.add_argument("--seed", type=int, default=None)
    a = ap.parse_args(argv)
    seed = a.seed if a.seed is not None else int(os.environ.get("VERIF_SEED", "1") or 1)
    try:
        rc = run_check(a.property.upper(), a.tier, seed, replay=a.replay)
    except HarnessError as e:
        sys.stderr.write("HARNESS ERROR in %s:\n%s\n" % (a.property, e))
        return 2
    except Exception:  # noqa: BLE001
        sys.stderr.write("HARNESS ERROR in %s:\n%s\n" % (a.property, traceback.format_exc()))
        return 2
    return rc


if __name__ == "__main__":
    sys.exit(main())
