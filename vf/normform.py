"""Normal form N for comparing trees modulo inserted line-nodes (DESIGN 4.2)."""
GROUPING = {"Specification_Part", "Implicit_Part", "Execution_Part", "Internal_Subprogram_Part",
            "Module_Subprogram_Part", "Component_Part", "Type_Bound_Procedure_Part"}


_PREFIXES = ("Specification_Part", "Implicit_Part", "Execution_Part", "Internal_Subprogram_Part",
             "Module_Subprogram_Part", "Component_Part", "Type_Bound_Procedure_Part")


def is_grouping(name):
    return isinstance(name, str) and name.startswith(_PREFIXES)


def normal_form(c):
    """c: canonical tuple (from treeform.canon with the inserted classes dropped)."""
    if not isinstance(c, tuple) or not c or not isinstance(c[0], str):
        return c
    head = c[0]
    kids = [normal_form(k) for k in c[1:]]
    out = []
    for k in kids:
        if isinstance(k, tuple) and k and is_grouping(k[0]):
            if len(k) == 1:
                continue                      # emptied grouping node
            if out and isinstance(out[-1], tuple) and out[-1][0] == k[0]:
                out[-1] = out[-1] + k[1:]    # merge adjacent siblings of the same grouping class
                continue
        out.append(k)
    # a grouping node directly inside a grouping node of another class that became its only child stays as is
    return (head,) + tuple(out)


def flatten_groupings(c):
    """Stronger normalisation: splice grouping nodes into their parent (used when an inserted line may move a
    statement between Implicit_Part and Specification_Part wrappers)."""
    if not isinstance(c, tuple) or not c or not isinstance(c[0], str):
        return c
    out = []
    for k in c[1:]:
        k = flatten_groupings(k)
        if isinstance(k, tuple) and k and isinstance(k[0], str) and k[0].startswith("Implicit_Part"):
            out.extend(k[1:])
        else:
            out.append(k)
    return (c[0],) + tuple(out)
