"""Independent free-form Fortran lexer (shares nothing with fparser).

lex_line(text) -> list of (kind, text).  Lossless: joining the token texts
gives the input with blanks outside character context removed (checked on
every call).  A trailing comment is returned as a ('COMMENT', text) token.
"""
import re

_NAME = re.compile(r"[A-Za-z][A-Za-z0-9_]*")
_DOT = re.compile(r"\.[A-Za-z]+\.")
_NUM = re.compile(r"""
    (?:\d+\.\d*|\.\d+|\d+)          # mantissa
    (?:[EeDd][+-]?\d+)?             # exponent
    (?:_[A-Za-z0-9_]+)?             # kind
""", re.X)
_OPS2 = ("**", "//", "==", "/=", "<=", ">=", "=>", "::")


class LexError(Exception):
    pass


def _string_end(s, i):
    q = s[i]
    j = i + 1
    n = len(s)
    while j < n:
        if s[j] == q:
            if j + 1 < n and s[j + 1] == q:
                j += 2
                continue
            return j + 1
        j += 1
    raise LexError("unterminated string in %r" % s)


def lex_line(s, check=True):
    toks = []
    i, n = 0, len(s)
    while i < n:
        c = s[i]
        if c in " \t":
            i += 1
            continue
        if c == "!":
            toks.append(("COMMENT", s[i:].rstrip()))
            i = n
            break
        if c in "'\"":
            j = _string_end(s, i)
            toks.append(("STR", s[i:j]))
            i = j
            continue
        if c.isalpha():
            m = _NAME.match(s, i)
            word = m.group(0)
            j = m.end()
            if len(word) == 1 and word in "bBoOzZ" and j < n and s[j] in "'\"":
                k = _string_end(s, j)
                toks.append(("BOZ", s[i:k]))
                i = k
                continue
            toks.append(("WORD", word))
            i = j
            continue
        if c.isdigit() or (c == "." and i + 1 < n and s[i + 1].isdigit()):
            # number; care for '1.eq.2' and '1.and.'
            m = _NUM.match(s, i)
            j = m.end()
            txt = m.group(0)
            # if the mantissa ended in '.' and what follows '.' is a dotted operator, back off
            m2 = re.match(r"\d+\.", s[i:])
            if m2 and "." in txt:
                dotpos = i + m2.end() - 1
                if _DOT.match(s, dotpos) and not re.match(r"\d+\.\d", s[i:]):
                    # e.g. 1.eq.2 or 1.e.2?  prefer operator reading unless exponent form d.E[+-]d
                    mexp = re.match(r"\d+\.[EeDd][+-]?\d", s[i:])
                    if not mexp:
                        j = dotpos
                        txt = s[i:j]
            toks.append(("NUM", txt))
            i = j
            continue
        if c == ".":
            m = _DOT.match(s, i)
            if m:
                toks.append(("DOT", m.group(0)))
                i = m.end()
                continue
            toks.append(("OP", c))
            i += 1
            continue
        two = s[i:i + 2]
        if two in _OPS2:
            toks.append(("OP", two))
            i += 2
            continue
        toks.append(("OP", c))
        i += 1
    if check:
        joined = "".join(t for _, t in toks)
        if joined != strip_blanks(s):
            raise LexError("lexer not lossless: %r -> %r" % (s, joined))
    return toks


def strip_blanks(s):
    """Remove blanks outside character context and outside a trailing comment."""
    out = []
    i, n = 0, len(s)
    while i < n:
        c = s[i]
        if c in "'\"":
            j = _string_end(s, i)
            out.append(s[i:j])
            i = j
            continue
        if c == "!":
            out.append(s[i:].rstrip())
            break
        if c not in " \t":
            out.append(c)
        i += 1
    return "".join(out)


def lex_text(text):
    """Lex a multi-line regenerated source: list of token lists, one per non-blank line."""
    out = []
    for line in text.split("\n"):
        if not line.strip():
            continue
        out.append(lex_line(line))
    return out
