"""Canonical nested-tuple form of fparser2 parse trees; tree helpers."""
import re
from vf.env import Base, BlockBase

_BLOCK_NAME = re.compile(r"^block:\d+$")


def kids(node):
    """Children containers of a node exactly as stored (content or items)."""
    c = getattr(node, "content", None)
    if c is not None:
        return c
    return getattr(node, "items", ()) or ()


def iter_nodes(node):
    """Pre-order over all Base nodes reachable via content/items, descending into
    lists and tuples (independent of fparser's walk())."""
    stack = [node]
    while stack:
        n = stack.pop()
        if isinstance(n, Base):
            yield n
            ch = kids(n)
            stack.extend(reversed(list(ch)))
        elif isinstance(n, (list, tuple)):
            stack.extend(reversed(list(n)))


def canon(node, names_lower=False, class_map=None, drop=None):
    """Nested tuple (class name, children...).  Strings verbatim, None kept.
    Synthetic scope names 'block:<n>' are renumbered by order of appearance."""
    state = {"blocks": {}}

    def rec(n):
        if isinstance(n, Base):
            cn = type(n).__name__
            if drop and cn in drop:
                return None
            if class_map:
                cn = class_map.get(cn, cn)
            out = [cn]
            it = getattr(n, "item", None)
            if it is not None and not isinstance(n, BlockBase):
                # statement label and construct name live on the reader item, not among the children
                lab, nm = getattr(it, "label", None), getattr(it, "name", None)
                if lab is not None:
                    out.append(("@label", lab))
                if nm:
                    out.append(("@construct-name", nm.lower() if names_lower else nm))
            ks = kids(n)
            if not ks and isinstance(getattr(n, "string", None), str):
                out.append(n.string)          # StringBase leaves (Name, ...) keep their text in .string, not in items
            for ch in ks:
                r = rec(ch)
                if r is None and isinstance(ch, Base):
                    continue  # dropped node
                out.append(r)
            if names_lower and (cn == "Name" or cn.endswith("_Name")):
                out = [cn] + [x.lower() if isinstance(x, str) else x for x in out[1:]]
            return tuple(out)
        if isinstance(n, (list, tuple)):
            out = []
            for ch in n:
                r = rec(ch)
                if r is None and isinstance(ch, Base):
                    continue
                out.append(r)
            return ("[]",) + tuple(out)
        if isinstance(n, str):
            if _BLOCK_NAME.match(n):
                b = state["blocks"]
                return "block:#%d" % b.setdefault(n, len(b))
            return n
        if n is None or isinstance(n, (int, float, bool)):
            return n
        return "<%s>%s" % (type(n).__name__, n)

    return rec(node)


def first_diff(a, b, path=()):
    """Locate the first difference between two canonical forms.
    Returns (path of class names, a-part, b-part) or None."""
    if a == b:
        return None
    if isinstance(a, tuple) and isinstance(b, tuple) and a and b and a[0] == b[0] \
            and isinstance(a[0], str):
        p = path + (a[0],)
        for x, y in zip(a[1:], b[1:]):
            d = first_diff(x, y, p)
            if d:
                return d
        if len(a) != len(b):
            la, lb = len(a), len(b)
            extra = a[lb] if la > lb else b[la]
            return (p, "len=%d" % (la - 1), "len=%d" % (lb - 1), head(extra))
        return (p, a, b, None)
    return (path, head(a), head(b), None)


def head(x):
    if isinstance(x, tuple) and x and isinstance(x[0], str):
        return x[0]
    return x if not isinstance(x, tuple) else "(...)"


def diff_bucket(a, b):
    d = first_diff(a, b)
    if d is None:
        return "equal"
    path, x, y = d[0], d[1], d[2]
    tail = "/".join(path[-2:])
    hx = x if isinstance(x, str) and len(x) < 30 and not isinstance(x, tuple) else head(x)
    hy = y if isinstance(y, str) and len(y) < 30 and not isinstance(y, tuple) else head(y)
    if not (isinstance(hx, str) and hx[:1].isupper()):
        hx = type(hx).__name__ if not isinstance(hx, str) else "str"
    if not (isinstance(hy, str) and hy[:1].isupper()):
        hy = type(hy).__name__ if not isinstance(hy, str) else "str"
    return "%s:%s!=%s" % (tail, hx, hy)


def renumber_blocks(text):
    """Renumber 'block:<n>' occurrences in text by order of appearance."""
    seen = {}
    return re.sub(r"block:\d+", lambda m: "block:#%d" % seen.setdefault(m.group(0), len(seen)), text)


def norm_text(text):
    """str(tree) modulo trailing blank lines."""
    return text.rstrip("\n ") if text is not None else text


def class_names(tree):
    return {type(n).__name__ for n in iter_nodes(tree)}


def depth_of(tree):
    """Maximum BlockBase nesting depth."""
    best = 0
    stack = [(tree, 0)]
    while stack:
        n, d = stack.pop()
        if isinstance(n, BlockBase):
            d += 1
            best = max(best, d)
        if isinstance(n, Base):
            for ch in kids(n):
                if isinstance(ch, (Base, list, tuple)):
                    stack.append((ch, d))
        elif isinstance(n, (list, tuple)):
            for ch in n:
                if isinstance(ch, (Base, list, tuple)):
                    stack.append((ch, d))
    return best
