#!/bin/sh
# Offline setup: make sure hypothesis is importable under /venv/bin/python; atheris (optional) into .deps.
cd "$(dirname "$0")" || exit 1
if ! /venv/bin/python -c "import hypothesis" 2>/dev/null; then
  /venv/bin/pip install --no-index --find-links /opt/veriftools/wheels hypothesis || exit 1
fi
if ! PYTHONPATH="$PWD/.deps" /venv/bin/python -c "import atheris" 2>/dev/null; then
  /venv/bin/pip install --no-index --find-links /opt/veriftools/wheels --target "$PWD/.deps" atheris >/dev/null 2>&1 \
    || echo "setup: atheris not installed (C06 thorough fuzz engine will be skipped)"
fi
/venv/bin/python -c "import hypothesis, sys; sys.path.insert(0,'/repo/src'); import fparser; print('setup ok: hypothesis', hypothesis.__version__)"
